//go:build verif

package main

import (
	"fmt"
	"os"
	"sort"
	"strconv"
	"strings"

	"github.com/gethiox/HIDI/internal/pkg/input"
	"github.com/gethiox/HIDI/internal/pkg/midi"
	"github.com/gethiox/HIDI/internal/pkg/midi/device"
	"github.com/gethiox/HIDI/internal/pkg/midi/device/config"
	"github.com/holoplot/go-evdev"
)

// ---- declarative scenario description: rendered to TOML for the real parser AND
// read directly by the reference model (the reference never looks at parser output).

type KeyNote struct {
	Note   int
	Offset int
}

type AxisDesc struct {
	Name     string // ABS_X ...
	Type     string // cc | pitch_bend | key | action
	CC       int
	CCNeg    int // -1: absent
	Note     int
	NoteNeg  int // -1: absent
	Off      int
	OffNeg   int
	Action   string
	ActNeg   string
	Flip     bool
	DZCenter bool
	Deadzone float64 // per-axis deadzone (always given explicitly in scenarios)
	Min, Max int32   // AbsInfo
	Pos      []int32 // position alphabet offered by the driver
}

type MapDesc struct {
	Name    string
	Keys    map[string]KeyNote            // sub-handler ""
	SubKeys map[string]map[string]KeyNote // further sub-handlers: name -> key -> note
	Axes    []AxisDesc
	SubAxes map[string][]AxisDesc // axes of further sub-handlers
}

type Desc struct {
	Name        string
	Mode        string
	Exit        []string
	FreeActions bool     // actions may be pressed on top of a held up/down pair (swallowed, but tracked as held)
	ExitOnSub   []string // sequence keys that only a sub-handler delivers (no main-handler symbol)
	Octave      int
	Semitone    int
	Channel     int // 1..16
	Velocity    int
	DefMap      string
	Actions     map[string]string // key name -> action
	Mappings    []MapDesc
	cfg         *config.Config // parsed once by the real parser (read-only afterwards)
	Extra       []string       // further keys in the alphabet that are mapped to nothing
	// driver bounds (inclusive) on the reference state; an action press that would leave them is not offered
	OctLo, OctHi, SemLo, SemHi int
	ChSet                      []int // allowed 0-based channels (empty: all); 0 is always reachable through reset
}

func sortedKeys[V any](m map[string]V) []string {
	ks := make([]string, 0, len(m))
	for k := range m {
		ks = append(ks, k)
	}
	sort.Strings(ks)
	return ks
}

func (d *Desc) TOML() string {
	var b strings.Builder
	fmt.Fprintf(&b, "collision_mode = %q\n", d.Mode)
	q := []string{}
	for _, k := range d.Exit {
		q = append(q, fmt.Sprintf("%q", k))
	}
	fmt.Fprintf(&b, "exit_sequence = [%s]\n\n[identifier]\n  bus = 0\n  vendor = 0\n  product = 0\n  version = 0\n\n", strings.Join(q, ", "))
	fmt.Fprintf(&b, "[defaults]\n  octave = %d\n  semitone = %d\n  channel = %d\n  mapping = %q\n  velocity = %d\n\n", d.Octave, d.Semitone, d.Channel, d.DefMap, d.Velocity)
	b.WriteString("[action_mapping]\n")
	for _, k := range sortedKeys(d.Actions) {
		fmt.Fprintf(&b, "  %s = %q\n", k, d.Actions[k])
	}
	b.WriteString("\n[open_rgb]\n  white = 0x005500\n  black = 0x000055\n  c = 0x555500\n  unavailable = 0x440000\n  other = 0x440000\n  active = 0xffffff\n  active_external = 0xfefefe\n\n")
	for _, m := range d.Mappings {
		fmt.Fprintf(&b, "[[mapping]]\n  name = %q\n  [[mapping.keys]]\n    subhandler = \"\"\n    [mapping.keys.map]\n", m.Name)
		for _, k := range sortedKeys(m.Keys) {
			kn := m.Keys[k]
			if kn.Offset != 0 {
				fmt.Fprintf(&b, "      %s = \"%d,%d\"\n", k, kn.Note, kn.Offset)
			} else {
				fmt.Fprintf(&b, "      %s = \"%d\"\n", k, kn.Note)
			}
		}
		for _, sub := range sortedKeys(m.SubKeys) {
			fmt.Fprintf(&b, "  [[mapping.keys]]\n    subhandler = %q\n    [mapping.keys.map]\n", sub)
			for _, k := range sortedKeys(m.SubKeys[sub]) {
				kn := m.SubKeys[sub][k]
				fmt.Fprintf(&b, "      %s = \"%d,%d\"\n", k, kn.Note, kn.Offset)
			}
		}
		renderAxes(&b, "", m.Axes)
		for _, sub := range sortedKeys(m.SubAxes) {
			renderAxes(&b, sub, m.SubAxes[sub])
		}
		b.WriteString("\n")
	}
	return b.String()
}

func renderAxes(b *strings.Builder, sub string, axes []AxisDesc) {
	if len(axes) > 0 {
		fmt.Fprintf(b, "  [[mapping.analog]]\n    subhandler = %q\n    default_deadzone = 0.3\n    [mapping.analog.map]\n", sub)
		for _, a := range axes {
			f := []string{fmt.Sprintf("type = %q", a.Type)}
			switch a.Type {
			case "cc":
				f = append(f, fmt.Sprintf("cc = %d", a.CC))
				if a.CCNeg >= 0 {
					f = append(f, fmt.Sprintf("cc_negative = %d", a.CCNeg))
				}
			case "key":
				f = append(f, fmt.Sprintf("note = %d", a.Note))
				if a.NoteNeg >= 0 {
					f = append(f, fmt.Sprintf("note_negative = %d", a.NoteNeg))
				}
			case "action":
				f = append(f, fmt.Sprintf("action = %q", a.Action))
				if a.ActNeg != "" {
					f = append(f, fmt.Sprintf("action_negative = %q", a.ActNeg))
				}
			}
			if a.Off != 0 {
				f = append(f, fmt.Sprintf("channel_offset = %d", a.Off))
			}
			if a.OffNeg != 0 {
				f = append(f, fmt.Sprintf("channel_offset_negative = %d", a.OffNeg))
			}
			if a.Flip {
				f = append(f, "flip_axis = true")
			}
			if a.DZCenter {
				f = append(f, "deadzone_at_center = true")
			}
			fmt.Fprintf(b, "      %s = { %s }\n", a.Name, strings.Join(f, ", "))
		}
		b.WriteString("    [mapping.analog.deadzones]\n")
		for _, a := range axes {
			dz := fmt.Sprintf("%v", a.Deadzone)
			if !strings.Contains(dz, ".") {
				dz += ".0"
			}
			fmt.Fprintf(b, "      %s = %s\n", a.Name, dz)
		}
	}
}

// ---- event alphabet

type Sym struct {
	Sub    string // sub-handler the event comes from ("" default)
	Name   string
	IsAxis bool
	Code   evdev.EvCode
	// keys
	Action string // "" for non-action keys
	// axes
	Min, Max int32
	Pos      []int32
}

type Event struct {
	Sym int   // index into alphabet
	Val int32 // key: 1 press, 0 release, 2 repeat; axis: raw position
}

func (e Event) String(alpha []Sym) string {
	s := alpha[e.Sym]
	if s.IsAxis {
		return fmt.Sprintf("%s=%d", s.Name, e.Val)
	}
	switch e.Val {
	case 1:
		return "+" + s.Name
	case 0:
		return "-" + s.Name
	}
	return "~" + s.Name
}

func (d *Desc) Alphabet() []Sym {
	seen := map[string]bool{}
	var out []Sym
	addKey := func(k, action string) {
		if seen[k] {
			return
		}
		seen[k] = true
		out = append(out, Sym{Name: k, Code: keyCode(k), Action: action})
	}
	for _, m := range d.Mappings {
		for _, k := range sortedKeys(m.Keys) {
			addKey(k, d.Actions[k])
		}
	}
	for _, m := range d.Mappings {
		for _, sub := range sortedKeys(m.SubKeys) {
			for _, k := range sortedKeys(m.SubKeys[sub]) {
				n := sub + ":" + k
				if !seen[n] {
					seen[n] = true
					out = append(out, Sym{Sub: sub, Name: n, Code: keyCode(k)})
				}
			}
		}
	}
	for _, k := range sortedKeys(d.Actions) {
		addKey(k, d.Actions[k])
	}
	for _, k := range d.Exit {
		onSub := false
		for _, x := range d.ExitOnSub { // this sequence key exists only on a sub-handler (already in the alphabet as "<sub>:<key>")
			if x == k {
				onSub = true
			}
		}
		if !onSub {
			addKey(k, d.Actions[k])
		}
	}
	for _, k := range d.Extra {
		addKey(k, d.Actions[k])
	}
	for _, m := range d.Mappings {
		for _, a := range m.Axes {
			if seen[a.Name] {
				continue
			}
			seen[a.Name] = true
			code, ok := evdev.ABSFromString[a.Name]
			if !ok {
				panic("VERIF-INFRA: unknown axis name " + a.Name)
			}
			out = append(out, Sym{Name: a.Name, IsAxis: true, Code: code, Min: a.Min, Max: a.Max, Pos: a.Pos})
		}
	}
	for _, m := range d.Mappings {
		for _, sub := range sortedKeys(m.SubAxes) {
			for _, a := range m.SubAxes[sub] {
				n := sub + ":" + a.Name
				if seen[n] {
					continue
				}
				seen[n] = true
				out = append(out, Sym{Sub: sub, Name: n, IsAxis: true, Code: evdev.ABSFromString[a.Name], Min: a.Min, Max: a.Max, Pos: a.Pos})
			}
		}
	}
	return out
}

// ---- building the real device

var handler = input.Handler{
	Name:       "",
	DeviceInfo: input.VerifDeviceInfo("event0", "Dummy", "phys0", input.InputID{}, "", nil),
}

func (d *Desc) Build(out chan midi.Event, sigs chan os.Signal) (*device.Device, error) {
	if d.cfg == nil {
		cfg, err := config.ParseData([]byte(d.TOML()))
		if err != nil {
			return nil, fmt.Errorf("scenario %s: real parser rejected the scenario configuration: %w\n%s", d.Name, err, d.TOML())
		}
		d.cfg = &cfg
	}
	cfg := *d.cfg
	abs := map[evdev.EvCode]evdev.AbsInfo{}
	for _, m := range d.Mappings {
		for _, a := range m.Axes {
			abs[evdev.ABSFromString[a.Name]] = evdev.AbsInfo{Minimum: a.Min, Maximum: a.Max}
		}
		for _, as := range m.SubAxes {
			for _, a := range as {
				abs[evdev.ABSFromString[a.Name]] = evdev.AbsInfo{Minimum: a.Min, Maximum: a.Max}
			}
		}
	}
	in := input.Device{
		Name: "Dummy", DeviceType: input.KeyboardDevice,
		Handlers: []input.Handler{handler},
		AbsInfos: map[string]map[evdev.EvCode]evdev.AbsInfo{"event0": abs},
	}
	dev := device.NewDevice(in, config.DeviceConfig{ConfigFile: "scenario", ConfigType: "verif", Config: cfg}, out, nil, true, 1, sigs)
	return &dev, nil
}

// keyCode: evdev code of a key given by name or as x<hex> (the two spellings the config format allows)
func keyCode(k string) evdev.EvCode {
	if strings.HasPrefix(k, "x") {
		v, err := strconv.ParseUint(k[1:], 16, 16)
		if err != nil {
			panic("VERIF-INFRA: bad hex key " + k)
		}
		return evdev.EvCode(v)
	}
	c, ok := evdev.KEYFromString[k]
	if !ok {
		panic("VERIF-INFRA: unknown key name " + k)
	}
	return c
}

// buildFromTOML: like Build but with an explicitly given configuration text (AbsInfos still from d).
func buildFromTOML(d *Desc, text string, out chan midi.Event, sigs chan os.Signal) (*device.Device, error) {
	cfg, err := config.ParseData([]byte(text))
	if err != nil {
		return nil, fmt.Errorf("real parser rejected the configuration: %w\n%s", err, text)
	}
	d.cfg = &cfg
	return d.Build(out, sigs)
}

func inputEvent(alpha []Sym, e Event) *input.InputEvent {
	s := alpha[e.Sym]
	t := evdev.EvType(evdev.EV_KEY)
	if s.IsAxis {
		t = evdev.EV_ABS
	}
	h := handler
	h.Name = s.Sub
	return &input.InputEvent{Source: h, Event: evdev.InputEvent{Type: t, Code: s.Code, Value: e.Val}}
}
