//go:build verif

// C19: configuration changes are noticed. The real config.DetectDeviceConfigChanges
// (instrumented monitor.go) against a fake fsnotify whose event stream the harness injects;
// every sequence of <= N events over a small alphabet x consumer kind x cancellation,
// all interleavings up to a preemption bound.
package main

import (
	"flag"
	"fmt"
	"os"
	"path/filepath"
	"runtime"
	"strings"
	"time"

	"github.com/fsnotify/fsnotify"
	"github.com/gethiox/HIDI/internal/pkg/logger"
	"github.com/gethiox/HIDI/internal/pkg/midi/device/config"
	"github.com/gethiox/HIDI/internal/verif/vsched"
	"github.com/gethiox/HIDI/internal/verif/vutil"
)

type sym struct {
	name     string
	ev       fsnotify.Event
	relevant bool   // an in-place modification of a .toml file
	content  string // what the (real) file holds when the event is delivered; "-" = leave the file alone, "" = truncated to nothing
}

const dir = "hidi-config/user/keyboard/"

var alphabet = []sym{
	{"write a.toml", fsnotify.Event{Name: dir + "a.toml", Op: fsnotify.Write}, true, "collision_mode = \"off\"\n"},
	{"write A.TOML", fsnotify.Event{Name: "hidi-config/factory/gamepad/A.TOML", Op: fsnotify.Write}, true, "x = 1\n"},
	{"write b.txt", fsnotify.Event{Name: dir + "b.txt", Op: fsnotify.Write}, false, "text"},
	{"write atoml", fsnotify.Event{Name: dir + "atoml", Op: fsnotify.Write}, false, "text"},
	{"write toml", fsnotify.Event{Name: dir + "toml", Op: fsnotify.Write}, false, "text"},
	{"create c.toml", fsnotify.Event{Name: dir + "c.toml", Op: fsnotify.Create}, false, ""},
	{"chmod a.toml", fsnotify.Event{Name: dir + "a.toml", Op: fsnotify.Chmod}, false, "-"},
	{"remove a.toml", fsnotify.Event{Name: dir + "a.toml", Op: fsnotify.Remove}, false, "-"},
	{"rename a.toml", fsnotify.Event{Name: dir + "a.toml", Op: fsnotify.Rename}, false, "-"},
	{"write a.toml.bak", fsnotify.Event{Name: dir + "a.toml.bak", Op: fsnotify.Write}, false, "text"},
	// the file is emptied in place (`: > a.toml`, os.Truncate): one Write event, the file holds nothing afterwards
	{"truncate a.toml to nothing", fsnotify.Event{Name: dir + "a.toml", Op: fsnotify.Write}, true, ""},
	// the kernel queue overflowed (a burst while the consumer was late): the library reports ErrEventOverflow on
	// watcher.Errors with a BLOCKING send (inotify.go:250-256 of fsnotify v1.5.1) before it reads on
	{"queue overflow", fsnotify.Event{Name: "overflow"}, false, "-"},
}

type cfg struct {
	seq       []int
	consumer  string // prompt | late
	cancel    bool
	noWatcher bool // the environment refuses a watcher (inotify instance limit, no file descriptors left)
}

func (c cfg) name() string {
	var s []string
	for _, i := range c.seq {
		s = append(s, alphabet[i].name)
	}
	if c.noWatcher {
		return fmt.Sprintf("[no watcher can be created] consumer=%s cancel=%v", c.consumer, c.cancel)
	}
	return fmt.Sprintf("[%s] consumer=%s cancel=%v", strings.Join(s, ", "), c.consumer, c.cancel)
}

// setFile brings a real file to the given content (absent = removed); the file system is only touched when that changes
// something (millions of executions start from the same few contents)
const absent = "\x00absent"

var fsNow = map[string]string{}

func setFile(path, content string) {
	if cur, ok := fsNow[path]; ok && cur == content {
		return
	}
	if content == absent {
		os.Remove(path)
	} else {
		os.WriteFile(path, []byte(content), 0o644)
	}
	fsNow[path] = content
}

func scenario(c cfg) func() {
	return func() {
		setFile(dir+"a.toml", "collision_mode = \"interrupt\"\n") // the same starting point for every execution
		var w *fsnotify.Watcher
		fsnotify.VerifNewWatcher = func() (*fsnotify.Watcher, error) {
			if c.noWatcher {
				return nil, fmt.Errorf("too many open files")
			}
			w = &fsnotify.Watcher{Events: make(chan fsnotify.Event), Errors: make(chan error), Done: make(chan struct{})}
			vsched.Name(w.Events, "watcher.Events")
			vsched.Name(w.Done, "watcher.done")
			vsched.Name(w.Errors, "watcher.Errors")
			// the library's reader goroutine ("kernel"): delivers the planned events, abandons delivery when closed,
			// and closes Events when the watcher is closed
			vsched.Go("fsnotify-reader", func() {
				for _, i := range c.seq {
					if alphabet[i].name == "queue overflow" {
						e := vsched.CaseSend[error](w.Errors, fsnotify.ErrEventOverflow)
						d := vsched.CaseRecv[struct{}](w.Done)
						if vsched.Select(false, e, d) == 1 {
							break
						}
						vsched.Observe("overflow-reported", i)
						continue
					}
					if a := alphabet[i]; a.content != "-" { // the file system is real: the file holds this when the event arrives
						if a.ev.Op == fsnotify.Remove || a.ev.Op == fsnotify.Rename {
							setFile(a.ev.Name, absent)
						} else {
							setFile(a.ev.Name, a.content)
						}
					}
					vsched.Observe("offered", i) // recorded BEFORE the hand-off: a notification can only follow it
					e := vsched.CaseSend[fsnotify.Event](w.Events, alphabet[i].ev)
					d := vsched.CaseRecv[struct{}](w.Done)
					if vsched.Select(false, e, d) == 1 {
						break
					}
					vsched.Observe("delivered", i)
				}
				vsched.Observe("reader-idle", true) // every planned event has left the library
				vsched.In[struct{}](w.Done).Recv()
				vsched.CloseBidi(w.Events)
				vsched.CloseBidi(w.Errors)
			})
			return w, nil
		}
		fsnotify.VerifClose = func(w *fsnotify.Watcher) { vsched.CloseBidi(w.Done) }
		ctx, cancel := vsched.WithCancel(vsched.Background())
		change := config.DetectDeviceConfigChanges(ctx)
		vsched.Name(change, "change")
		vsched.Go("consumer", func() {
			if c.consumer == "late" {
				vsched.SleepL(0, "late-consumer")
			}
			for {
				_, ok := vsched.In[bool](change).Recv2()
				if !ok {
					vsched.Observe("stream-closed", true)
					return
				}
				vsched.Observe("notified", true)
			}
		})
		if c.cancel {
			vsched.Go("canceller", func() {
				vsched.Pause()
				vsched.Observe("cancel", true)
				cancel()
			})
		}
		// after quiescence: shut down (if not yet) so that everything can end
		vsched.Go("finisher", func() {
			vsched.Quiesce()
			vsched.Observe("quiescent", true)
			vsched.Final()
			cancel()
		})
	}
}

func check(c cfg) func(x *vsched.Execution) []vsched.Violation {
	return func(x *vsched.Execution) []vsched.Violation {
		var vs []vsched.Violation
		if x.Panic != "" {
			return []vsched.Violation{{"watcher-panics", strings.SplitN(x.Panic, ":", 2)[0], x.Panic}}
		}
		if x.Deadlock {
			var w []string
			for _, b := range x.Blocked {
				w = append(w, strings.SplitN(b, "@", 2)[0])
			}
			return []vsched.Violation{{"watcher-does-not-stop", strings.Join(w, " + "), "after shutdown these threads are blocked forever: " + strings.Join(x.Blocked, " | ")}}
		}
		relevantDelivered, notified, nDelivered, lastOfferAt := 0, 0, 0, -1
		cancelled, closed, readerIdle := false, false, false
		lastRelevantAt, lastNotifiedAt := -1, -1
		for i, o := range x.Obs {
			switch o.Kind {
			case "offered":
				lastOfferAt = i
				if alphabet[o.Val.(int)].relevant {
					relevantDelivered++ // upper bound on the notifications that may have happened so far
				}
			case "delivered": // the reader thread is sequential: this is the hand-off of the most recent offer
				if alphabet[o.Val.(int)].relevant {
					nDelivered++
					lastRelevantAt = lastOfferAt
				}
			case "notified":
				notified++
				lastNotifiedAt = i
				if notified > relevantDelivered {
					what := "no .toml file was modified"
					if relevantDelivered > 0 {
						what = fmt.Sprintf("only %d .toml modification(s) happened", relevantDelivered)
					}
					var seen []string
					for _, p := range x.Obs[:i] {
						if p.Kind == "offered" {
							seen = append(seen, alphabet[p.Val.(int)].name)
						}
					}
					return []vsched.Violation{{"spurious-notification", spuriousCause(x.Obs[:i]), fmt.Sprintf("notification #%d delivered although %s (events so far: %v)", notified, what, seen)}}
				}
			case "reader-idle":
				readerIdle = true
			case "cancel", "quiescent":
				if o.Kind == "cancel" {
					cancelled = true
				}
				if o.Kind == "quiescent" && !cancelled && !readerIdle && !c.noWatcher {
					return []vsched.Violation{{"watcher-stalls-the-library", "errors-not-consumed", "everything is quiescent, nothing was cancelled, and the fsnotify reader is still blocked handing over an event or error: later file modifications can never be noticed"}}
				}
			case "stream-closed":
				closed = true
			}
		}
		if !closed {
			vs = append(vs, vsched.Violation{"stream-never-ends", c.consumer, "after shutdown the notification stream was not closed"})
		}
		if !cancelled && nDelivered > 0 && lastNotifiedAt < lastRelevantAt {
			vs = append(vs, vsched.Violation{"modification-not-notified", c.consumer, fmt.Sprintf("a .toml file was modified (%d relevant events delivered to the watcher, no cancellation) but no notification followed the last modification", nDelivered)})
		}
		return vs
	}
}

func spuriousCause(obs []vsched.Obs) string {
	last := "none"
	for _, o := range obs {
		if o.Kind == "offered" && !alphabet[o.Val.(int)].relevant {
			last = alphabet[o.Val.(int)].name
		}
	}
	return last
}

func main() {
	out := flag.String("out", "", "")
	shard := flag.Int("shard", 0, "")
	nshards := flag.Int("nshards", 1, "")
	tier := flag.String("tier", "quick", "")
	bound := flag.Int("bound", 2, "")
	budget := flag.Duration("budget", 60*time.Second, "")
	list := flag.Bool("list", false, "")
	flag.Int("scenario", 0, "")
	flag.Parse()
	if *list {
		fmt.Println("0 all")
		return
	}
	runtime.GOMAXPROCS(1)
	go func() {
		for range logger.Messages {
		}
	}()
	// the watched directories exist for real (the code under test may look at the files its events name)
	tmp, err := os.MkdirTemp("", "verif_c19_fs")
	if err != nil {
		panic(err)
	}
	defer os.RemoveAll(tmp)
	for _, d := range []string{"factory/gamepad", "factory/keyboard", "user/gamepad", "user/keyboard"} {
		os.MkdirAll(filepath.Join(tmp, "hidi-config", d), 0o755)
	}
	if err := os.Chdir(tmp); err != nil {
		panic(err)
	}
	res := vutil.NewResult()
	maxLen := 2
	if *tier == "thorough" {
		maxLen = 3
	}
	var cfgs []cfg
	var rec func(seq []int)
	rec = func(seq []int) {
		for _, cons := range []string{"prompt", "late"} {
			for _, can := range []bool{false, true} {
				cfgs = append(cfgs, cfg{append([]int{}, seq...), cons, can, false})
				if len(seq) == 0 {
					cfgs = append(cfgs, cfg{nil, cons, can, true})
				}
			}
		}
		if len(seq) == maxLen {
			return
		}
		for i := range alphabet {
			rec(append(seq, i))
		}
	}
	rec(nil)
	deadline := time.Now().Add(*budget)
	for ci, c := range cfgs {
		if ci%*nshards != *shard {
			continue
		}
		outcomes := map[string]bool{}
		rep := vsched.Explore(scenario(c), vsched.ExploreOpts{Bound: *bound, Deadline: deadline, Prune: true, Check: check(c),
			Outcome: func(x *vsched.Execution) string {
				var o []string
				for _, ob := range x.Obs {
					o = append(o, fmt.Sprintf("%s:%v", ob.Kind, ob.Val))
				}
				outcomes[strings.Join(o, ";")] = true
				return ""
			}})
		res.Add("executions", rep.Executions)
		res.Add("evaluations", rep.Executions)
		res.Add("transitions", rep.Points)
		res.Add("states", int64(len(rep.StateHashes)))
		res.Add("replay_checks", int64(rep.ReplayChecks))
		res.Add("configurations", 1)
		for o := range outcomes {
			res.Distinct(fmt.Sprintf("%x", hash(c.name()+o)))
		}
		if rep.Capped {
			res.Exhaustive = false
			res.Note(fmt.Sprintf("time budget reached at configuration %d of %d in shard %d", ci, len(cfgs), *shard))
		}
		if ci%97 == 0 {
			res.Sample(map[string]interface{}{"configuration": c.name(), "executions": rep.Executions, "preemption_bound": *bound})
		}
		for _, f := range rep.Violations {
			res.Violate(f.V.Class, f.V.Where, fmt.Sprintf("%s: %s", c.name(), f.V.What), map[string]interface{}{
				"configuration": c.name(), "choices": f.Choices, "schedule": f.Trace, "observations": f.Obs})
		}
		if rep.Capped {
			break
		}
	}
	res.Write(*out)
}

func hash(s string) uint64 {
	var h uint64 = 1469598103934665603
	for i := 0; i < len(s); i++ {
		h ^= uint64(s[i])
		h *= 1099511628211
	}
	return h
}
