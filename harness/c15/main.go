//go:build verif

// C15: MIDI transport. The real utils.DynamicFanOut and midi.ProcessMidiEvents, instrumented
// (every channel / mutex / go operation is a vsched scheduling point), driven by small harness
// threads; all interleavings up to a preemption bound are enumerated.
package main

import (
	"flag"
	"fmt"
	"os"
	"runtime"
	"runtime/pprof"
	"strings"
	"time"

	"github.com/gethiox/HIDI/internal/pkg/logger"
	"github.com/gethiox/HIDI/internal/pkg/midi"
	"github.com/gethiox/HIDI/internal/pkg/midi/driver"
	"github.com/gethiox/HIDI/internal/pkg/utils"
	"github.com/gethiox/HIDI/internal/verif/vsched"
	"github.com/gethiox/HIDI/internal/verif/vutil"
)

type fakeOut struct{ ch chan []byte }

func (f *fakeOut) Name() string               { return "fake-out" }
func (f *fakeOut) Open() error                { return nil }
func (f *fakeOut) Close() error               { return nil }
func (f *fakeOut) SendChannel() chan<- []byte { return f.ch }

type fakeIn struct{ ch chan []byte }

func (f *fakeIn) Name() string                  { return "fake-in" }
func (f *fakeIn) Open() error                   { return nil }
func (f *fakeIn) Close() error                  { return nil }
func (f *fakeIn) ReceiveChannel() <-chan []byte { return f.ch }

func msg(src, i int) midi.Event { return midi.Event{0x90 | byte(src), byte(10*src + i), 64} }

type scenario struct {
	dBound      int  // added to the tier's preemption bound (big scenarios run one lower in the quick tier)
	choicesOnly bool // every operation history on the default schedule only
	name        string
	run         func()
	// oracle on the ordered observation list
	check func(x *vsched.Execution) []vsched.Violation
}

func obsList(x *vsched.Execution) []string {
	var r []string
	for _, o := range x.Obs {
		r = append(r, fmt.Sprintf("%s %v", o.Kind, o.Val))
	}
	return r
}

func common(x *vsched.Execution) []vsched.Violation {
	var vs []vsched.Violation
	if x.Panic != "" {
		vs = append(vs, vsched.Violation{"transport-panics", strings.SplitN(x.Panic, ":", 2)[0], x.Panic})
	}
	if x.Deadlock {
		w := []string{}
		for _, b := range x.Blocked {
			w = append(w, strings.SplitN(b, "@", 2)[0])
		}
		vs = append(vs, vsched.Violation{"blocked-forever", strings.Join(w, " + "), "threads that must finish are blocked forever: " + strings.Join(x.Blocked, " | ")})
	}
	if x.HorizonHit {
		vs = append(vs, vsched.Violation{"does-not-quiesce", "horizon", "the execution did not quiesce within the scheduling-point horizon"})
	}
	return vs
}

// finisher: after quiescence (nothing else enabled) tear everything down so that threads of the
// code under test can end; whatever is still blocked afterwards is a leak / deadlock.
func finisher(f func()) {
	vsched.Go("finisher", func() {
		vsched.Quiesce()
		vsched.Final()
		f()
	})
}

// ---------------------------------------------------------------- R-out: devices -> relay -> port

func routScenario(cap_, nEmit, nMsg int) scenario {
	return scenario{
		name: fmt.Sprintf("R-out cap=%d emitters=%d msgs=%d", cap_, nEmit, nMsg),
		run: func() {
			out := make(chan midi.Event, cap_)
			in := make(chan midi.Event, cap_)
			po := &fakeOut{make(chan []byte, cap_)}
			pi := &fakeIn{make(chan []byte)}
			vsched.Name(out, "midiEventsOut")
			vsched.Name(po.ch, "portOut")
			ctx, cancel := vsched.WithCancel(vsched.Background())
			var score midi.Score
			midi.ProcessMidiEvents(ctx, driver.Port{Input: pi, Output: po}, out, in, &score)
			vsched.Go("port-reader", func() {
				vsched.Daemon()
				for {
					m, ok := vsched.In[[]byte](po.ch).Recv2()
					if !ok {
						return
					}
					vsched.Observe("port", fmt.Sprintf("% x", m))
				}
			})
			for e := 0; e < nEmit; e++ {
				e := e
				vsched.Go(fmt.Sprintf("emitter%d", e), func() {
					for i := 0; i < nMsg; i++ {
						vsched.Out[midi.Event](out).Send(msg(e, i))
					}
				})
			}
			finisher(func() {
				cancel()
				vsched.CloseBidi(pi.ch)
			})
		},
		check: func(x *vsched.Execution) []vsched.Violation {
			vs := common(x)
			next := make([]int, nEmit)
			total := 0
			for _, o := range x.Obs {
				if o.Kind != "port" {
					continue
				}
				total++
				matched := false
				for e := 0; e < nEmit; e++ {
					if next[e] < nMsg && fmt.Sprintf("% x", []byte(msg(e, next[e]))) == o.Val {
						next[e]++
						matched = true
						break
					}
				}
				if !matched {
					vs = append(vs, vsched.Violation{"port-output-not-an-interleaving", "R-out", fmt.Sprintf("port received %v which is not the next message of any emitter (duplicate, reordered or corrupted); port sequence %v", o.Val, obsList(x))})
					return vs
				}
			}
			if !x.Deadlock && x.Panic == "" && total != nEmit*nMsg {
				vs = append(vs, vsched.Violation{"port-output-lost-message", "R-out", fmt.Sprintf("emitters sent %d messages, the port received %d: %v", nEmit*nMsg, total, obsList(x))})
			}
			return vs
		},
	}
}

// ---------------------------------------------------------------- R-in: port -> relay -> midiEventsIn

// inMsg: what the port delivers - channel messages, and as the last one a one-byte system real-time message (Start)
func inMsg(i, n int) []byte {
	if n >= 3 && i == n-1 {
		return []byte{0xFA}
	}
	return []byte(msg(1, i))
}

func rinScenario(cap_, nMsg int) scenario {
	return scenario{
		name: fmt.Sprintf("R-in cap=%d msgs=%d", cap_, nMsg),
		run: func() {
			out := make(chan midi.Event)
			in := make(chan midi.Event, cap_)
			po := &fakeOut{make(chan []byte)}
			pi := &fakeIn{make(chan []byte)}
			vsched.Name(in, "midiEventsIn")
			vsched.Name(pi.ch, "portIn")
			ctx, cancel := vsched.WithCancel(vsched.Background())
			var score midi.Score
			midi.ProcessMidiEvents(ctx, driver.Port{Input: pi, Output: po}, out, in, &score)
			vsched.Go("consumer", func() {
				vsched.Daemon()
				for {
					m, ok := vsched.In[midi.Event](in).Recv2()
					if !ok {
						return
					}
					vsched.Observe("in", fmt.Sprintf("% x", []byte(m)))
				}
			})
			vsched.Go("port-feeder", func() {
				for i := 0; i < nMsg; i++ {
					vsched.Out[[]byte](pi.ch).Send(inMsg(i, nMsg))
				}
			})
			finisher(func() {
				cancel()
				vsched.CloseBidi(pi.ch)
			})
		},
		check: func(x *vsched.Execution) []vsched.Violation {
			vs := common(x)
			var got []string
			for _, o := range x.Obs {
				if o.Kind == "in" {
					got = append(got, o.Val.(string))
				}
			}
			var want []string
			for i := 0; i < nMsg; i++ {
				want = append(want, fmt.Sprintf("% x", inMsg(i, nMsg)))
			}
			if len(vs) == 0 && strings.Join(got, ",") != strings.Join(want, ",") {
				vs = append(vs, vsched.Violation{"input-not-in-order-exactly-once", "R-in", fmt.Sprintf("the port delivered %v, midiEventsIn carried %v", want, got)})
			}
			return vs
		},
	}
}

// ---------------------------------------------------------------- R-in / fan-out

type fanCfg struct {
	name       string
	cap_       int // capacity of midiEventsIn (outputs get max(cap,1))
	nMsg       int
	aReads     bool // device A has a reader
	cycles     int  // attach/detach cycles of A
	viaRelay   bool // port -> relay -> fan-out (otherwise the feeder writes midiEventsIn directly)
	aSlowFirst bool
}

func fanScenario(c fanCfg) scenario {
	return scenario{
		name: c.name,
		run: func() {
			in := make(chan midi.Event, c.cap_)
			vsched.Name(in, "midiEventsIn")
			var feed func(i int)
			var closeFeed func()
			var cancel func()
			if c.viaRelay {
				out := make(chan midi.Event)
				po := &fakeOut{make(chan []byte)}
				pi := &fakeIn{make(chan []byte)}
				vsched.Name(pi.ch, "portIn")
				var ctx2 interface{}
				_ = ctx2
				ctx, cn := vsched.WithCancel(vsched.Background())
				cancel = cn
				var score midi.Score
				midi.ProcessMidiEvents(ctx, driver.Port{Input: pi, Output: po}, out, in, &score)
				feed = func(i int) { vsched.Out[[]byte](pi.ch).Send([]byte(msg(1, i))) }
				closeFeed = func() { vsched.CloseBidi(pi.ch) }
			} else {
				feed = func(i int) { vsched.Out[midi.Event](in).Send(msg(1, i)) }
				closeFeed = func() {}
				cancel = func() {}
			}
			fan := utils.NewDynamicFanOut[midi.Event](in)
			// device B: always attached, attached before any traffic
			_, bch, err := fan.SpawnOutput()
			if err != nil {
				panic(err)
			}
			vsched.Name(bch, "outB")
			vsched.Go("readerB", func() {
				vsched.Daemon()
				for {
					m, ok := vsched.In[midi.Event](bch).Recv2()
					if !ok {
						return
					}
					vsched.Observe("B-got", int(m[1])%10)
				}
			})
			vsched.Go("feeder", func() {
				vsched.Pause()
				for i := 0; i < c.nMsg; i++ {
					vsched.Observe("feed-start", i)
					feed(i)
				}
			})
			vsched.Go("controllerA", func() {
				vsched.Pause()
				for cyc := 0; cyc < c.cycles; cyc++ {
					cyc := cyc
					id, ach, err := fan.SpawnOutput()
					if err != nil {
						vsched.Observe("A-spawn-error", err.Error())
						return
					}
					vsched.Name(ach, fmt.Sprintf("outA%d", cyc))
					vsched.Observe("A-spawned", cyc)
					if c.aReads {
						vsched.Go("readerA", func() {
							vsched.Daemon()
							for {
								m, ok := vsched.In[midi.Event](ach).Recv2()
								if !ok {
									vsched.Observe("A-closed", cyc)
									return
								}
								vsched.Observe("A-got", fmt.Sprintf("%d/%d", cyc, int(m[1])%10))
							}
						})
					}
					vsched.Observe("A-despawn-call", cyc)
					if err := fan.DespawnOutput(id); err != nil {
						vsched.Observe("A-despawn-error", err.Error())
					}
					vsched.Observe("A-despawn-ret", cyc)
				}
			})
			finisher(func() {
				cancel()
				closeFeed()
				vsched.CloseBidi(in)
			})
		},
		check: func(x *vsched.Execution) []vsched.Violation {
			vs := common(x)
			if len(vs) > 0 {
				return vs
			}
			// B: exactly 0..n-1 in order
			var b []int
			pos := map[string]int{}
			for i, o := range x.Obs {
				switch o.Kind {
				case "B-got":
					b = append(b, o.Val.(int))
					pos[fmt.Sprintf("B-got %d", o.Val)] = i
				case "feed-start":
					pos[fmt.Sprintf("feed-start %d", o.Val)] = i
				case "A-spawned":
					pos[fmt.Sprintf("A-spawned %d", o.Val)] = i
				case "A-despawn-call":
					pos[fmt.Sprintf("A-despawn-call %d", o.Val)] = i
				case "A-despawn-error", "A-spawn-error":
					vs = append(vs, vsched.Violation{"attach-detach-error", o.Kind, fmt.Sprintf("%s: %v", o.Kind, o.Val)})
				}
			}
			for i := 0; i < c.nMsg; i++ {
				if i >= len(b) || b[i] != i {
					vs = append(vs, vsched.Violation{"always-attached-device-misses-or-reorders", c.name, fmt.Sprintf("device B (attached all the time) received %v, expected 0..%d in order; observations %v", b, c.nMsg-1, obsList(x))})
					return vs
				}
			}
			if len(b) != c.nMsg {
				vs = append(vs, vsched.Violation{"always-attached-device-duplicate", c.name, fmt.Sprintf("device B received %v", b)})
				return vs
			}
			if !c.aReads {
				return vs
			}
			for cyc := 0; cyc < c.cycles; cyc++ {
				var a []int
				for _, o := range x.Obs {
					if o.Kind == "A-got" {
						var cy, m int
						fmt.Sscanf(o.Val.(string), "%d/%d", &cy, &m)
						if cy == cyc {
							a = append(a, m)
						}
					}
				}
				for i := 1; i < len(a); i++ {
					if a[i] != a[i-1]+1 {
						vs = append(vs, vsched.Violation{"attached-device-gap-dup-or-reorder", c.name, fmt.Sprintf("device A (attachment %d) received %v: not a contiguous in-order run; observations %v", cyc, a, obsList(x))})
						return vs
					}
				}
				sp, okS := pos[fmt.Sprintf("A-spawned %d", cyc)]
				dc, okD := pos[fmt.Sprintf("A-despawn-call %d", cyc)]
				if !okS || !okD {
					continue
				}
				got := map[int]bool{}
				for _, m := range a {
					got[m] = true
				}
				for i := 0; i < c.nMsg; i++ {
					fs := pos[fmt.Sprintf("feed-start %d", i)]
					bg, okB := pos[fmt.Sprintf("B-got %d", i)]
					if fs > sp && okB && bg < dc && !got[i] {
						vs = append(vs, vsched.Violation{"connected-device-misses-message", c.name, fmt.Sprintf("message %d entered after device A was attached and had already reached device B when A's removal was requested, but A (attachment %d) received only %v; observations %v", i, cyc, a, obsList(x))})
						return vs
					}
				}
			}
			return vs
		},
	}
}

// idsScenario: EVERY history of attach / detach operations (which device is detached is a free choice) up to a
// depth, with at most maxLive devices attached at a time; after every operation one message enters and the
// system is left to quiesce. Oracle: each message reaches exactly the devices attached at that time, exactly
// once; a detached device's stream ends; no operation fails.
func idsScenario(maxLive, depth int) scenario {
	name := fmt.Sprintf("F-ids every attach/detach history, <=%d attached, depth %d", maxLive, depth)
	return scenario{
		name: name,
		run: func() {
			in := make(chan midi.Event, 1)
			vsched.Name(in, "midiEventsIn")
			fan := utils.NewDynamicFanOut[midi.Event](in)
			type dev struct {
				n  int
				id int64
			}
			var live []dev
			next := 0
			vsched.Go("controller", func() {
				for step := 0; step < depth; step++ {
					nOps := len(live)
					if len(live) < maxLive {
						nOps++
					}
					c := vsched.Choose(nOps, "operation")
					if c < len(live) {
						d := live[c]
						live = append(append([]dev{}, live[:c]...), live[c+1:]...)
						vsched.Observe("detach", d.n)
						if err := fan.DespawnOutput(d.id); err != nil {
							vsched.Observe("detach-error", fmt.Sprintf("device %d: %v", d.n, err))
						}
					} else {
						id, ch, err := fan.SpawnOutput()
						if err != nil {
							vsched.Observe("attach-error", err.Error())
							break
						}
						n := next
						next++
						vsched.Name(ch, fmt.Sprintf("out%d", n))
						live = append(live, dev{n, id})
						vsched.Observe("attach", n)
						vsched.Go(fmt.Sprintf("reader%d", n), func() {
							vsched.Daemon()
							for {
								m, ok := vsched.In[midi.Event](ch).Recv2()
								if !ok {
									vsched.Observe("closed", n)
									return
								}
								vsched.Observe("got", fmt.Sprintf("%d/%d", n, int(m[1])))
							}
						})
					}
					var ls []string
					for _, d := range live {
						ls = append(ls, fmt.Sprint(d.n))
					}
					vsched.Observe("feed", fmt.Sprintf("%d:%s", step, strings.Join(ls, ",")))
					vsched.Out[midi.Event](in).Send(midi.Event{0x90, byte(step), 64})
					vsched.Quiesce()
				}
				vsched.Final()
				vsched.CloseBidi(in)
			})
		},
		check: func(x *vsched.Execution) []vsched.Violation {
			vs := common(x)
			if len(vs) > 0 {
				return vs
			}
			got := map[string]int{}
			var hist []string
			for _, o := range x.Obs {
				switch o.Kind {
				case "got":
					got[o.Val.(string)]++
				case "attach", "detach":
					hist = append(hist, fmt.Sprintf("%s %v", o.Kind, o.Val))
				case "detach-error", "attach-error":
					return []vsched.Violation{{"attach-detach-error", o.Kind, fmt.Sprintf("after %v: %s: %v", hist, o.Kind, o.Val)}}
				}
			}
			closed := map[int]bool{}
			for _, o := range x.Obs {
				if o.Kind == "closed" {
					closed[o.Val.(int)] = true
				}
			}
			want := map[string]bool{}
			for _, o := range x.Obs {
				if o.Kind != "feed" {
					continue
				}
				parts := strings.SplitN(o.Val.(string), ":", 2)
				for _, d := range strings.Split(parts[1], ",") {
					if d != "" {
						want[d+"/"+parts[0]] = true
					}
				}
			}
			for w := range want {
				if got[w] != 1 {
					return []vsched.Violation{{"connected-device-misses-message", "ids", fmt.Sprintf("history %v: device/message %s was delivered %d times (the device was attached when the message entered); observations %v", hist, w, got[w], obsList(x))}}
				}
			}
			for g, n := range got {
				if !want[g] {
					return []vsched.Violation{{"message-delivered-to-detached-device", "ids", fmt.Sprintf("history %v: device/message %s delivered %d times although the device was not attached; observations %v", hist, g, n, obsList(x))}}
				}
			}
			for _, o := range x.Obs {
				if o.Kind == "detach" && !closed[o.Val.(int)] {
					return []vsched.Violation{{"detached-stream-never-ends", "ids", fmt.Sprintf("history %v: device %d was detached but its stream was never closed", hist, o.Val)}}
				}
			}
			return vs
		},
	}
}

func scenarios(tier string) []scenario {
	lower := func(sc scenario) scenario {
		if tier != "thorough" {
			sc.dBound = -1
		}
		return sc
	}
	s := []scenario{
		routScenario(0, 2, 2),
		routScenario(1, 2, 2),
		fanScenario(fanCfg{name: "F-direct cap=1 msgs=2 A-reads", cap_: 1, nMsg: 2, aReads: true, cycles: 1}),
		lower(fanScenario(fanCfg{name: "F-direct cap=0 msgs=2 A-reads", cap_: 0, nMsg: 2, aReads: true, cycles: 1})),
		rinScenario(1, 3),
		fanScenario(fanCfg{name: "F-stalled cap=1 msgs=3 A-never-reads", cap_: 1, nMsg: 3, aReads: false, cycles: 1}),
		lower(fanScenario(fanCfg{name: "F-churn cap=1 msgs=2 two attachments", cap_: 1, nMsg: 2, aReads: true, cycles: 2})),
	}
	if tier != "thorough" {
		// three messages around one attach/detach, non-preemptive schedules only (free choices at every blocking point):
		// cheap, and enough to expose a gap in what a device sees while it is being removed
		sc := fanScenario(fanCfg{name: "F-direct cap=1 msgs=3 A-reads (bound 0)", cap_: 1, nMsg: 3, aReads: true, cycles: 1})
		sc.dBound = -2
		s = append(s, sc)
		ids := idsScenario(3, 6)
		ids.choicesOnly = true
		s = append(s, ids)
		ids = idsScenario(3, 3)
		ids.dBound = -2
		s = append(s, ids)
	}
	if tier == "thorough" {
		s = append(s,
			routScenario(2, 2, 3),
			routScenario(0, 3, 2),
			rinScenario(0, 4),
			fanScenario(fanCfg{name: "R-in+F via relay cap=1 msgs=2 A-reads", cap_: 1, nMsg: 2, aReads: true, cycles: 1, viaRelay: true}),
			fanScenario(fanCfg{name: "F-direct cap=1 msgs=3 A-reads", cap_: 1, nMsg: 3, aReads: true, cycles: 1}),
			fanScenario(fanCfg{name: "F-direct cap=0 msgs=3 A-reads", cap_: 0, nMsg: 3, aReads: true, cycles: 1}),
			fanScenario(fanCfg{name: "F-direct cap=2 msgs=4 A-reads", cap_: 2, nMsg: 4, aReads: true, cycles: 1}),
			fanScenario(fanCfg{name: "R-in+F via relay cap=0 msgs=3 A-reads", cap_: 0, nMsg: 3, aReads: true, cycles: 1, viaRelay: true}),
			fanScenario(fanCfg{name: "F-stalled cap=2 msgs=4 A-never-reads", cap_: 2, nMsg: 4, aReads: false, cycles: 1}),
			fanScenario(fanCfg{name: "F-churn cap=1 msgs=3 two attachments", cap_: 1, nMsg: 3, aReads: true, cycles: 2}),
			fanScenario(fanCfg{name: "F-churn cap=0 msgs=4 two attachments", cap_: 0, nMsg: 4, aReads: true, cycles: 2}),
		)
		ids := idsScenario(4, 8)
		ids.choicesOnly = true
		s = append(s, ids)
		ids = idsScenario(3, 4)
		ids.dBound = -2
		s = append(s, ids)
	}
	return s
}

func main() {
	out := flag.String("out", "", "")
	shard := flag.Int("shard", 0, "")
	nshards := flag.Int("nshards", 1, "")
	tier := flag.String("tier", "quick", "")
	bound := flag.Int("bound", 2, "preemption bound")
	only := flag.Int("scenario", -1, "")
	replay := flag.String("replay", "", "scenario-index:comma-separated choices")
	budget := flag.Duration("budget", 40*time.Second, "wall-clock budget per scenario and shard (cap => exhaustive=false)")
	prof := flag.String("cpuprofile", "", "")
	list := flag.Bool("list", false, "list scenarios")
	flag.Parse()
	runtime.GOMAXPROCS(1) // hand-offs between scheduler threads are cheapest on one P; parallelism comes from sharding by process
	if *prof != "" {
		pf, _ := os.Create(*prof)
		pprof.StartCPUProfile(pf)
		defer pprof.StopCPUProfile()
	}
	go func() {
		for range logger.Messages {
		}
	}()
	res := vutil.NewResult()
	scs := scenarios(*tier)
	if *list {
		for i, sc := range scs {
			fmt.Printf("%d %s\n", i, sc.name)
		}
		return
	}
	if *replay != "" {
		var si int
		var cs string
		fmt.Sscanf(*replay, "%d:%s", &si, &cs)
		var choices []int
		for _, p := range strings.Split(cs, ",") {
			var c int
			if _, err := fmt.Sscanf(p, "%d", &c); err == nil {
				choices = append(choices, c)
			}
		}
		x := vsched.Run(scs[si].run, choices, vsched.Options{Trace: true})
		fmt.Println("scenario:", scs[si].name)
		for i, t := range x.Trace {
			fmt.Printf("%3d %s    options=%v key=%x\n", i, t, x.Points[i].Options, x.Points[i].Key)
		}
		fmt.Println("observations:", obsList(x))
		fmt.Println("blocked:", x.Blocked, "panic:", x.Panic)
		for _, v := range scs[si].check(x) {
			fmt.Println("VIOLATION", v.Class, v.What)
		}
		return
	}
	for si, sc := range scs {
		if *only >= 0 && si != *only {
			continue
		}
		outcomes := map[string]bool{}
		b := *bound + sc.dBound
		if b < 0 {
			b = 0
		}
		rep := vsched.Explore(sc.run, vsched.ExploreOpts{Bound: b, Shard: *shard, NShards: *nshards, Deadline: time.Now().Add(*budget), Prune: os.Getenv("NOPRUNE") == "", ChoicesOnly: sc.choicesOnly,
			Check: sc.check,
			Outcome: func(x *vsched.Execution) string {
				o := strings.Join(obsList(x), ";")
				outcomes[o] = true
				return ""
			}})
		res.Add("evaluations", rep.Executions)
		res.Add("executions", rep.Executions)
		res.Add("transitions", rep.Points)
		res.Add("states", int64(len(rep.StateHashes)))
		res.Add("replay_checks", int64(rep.ReplayChecks))
		res.Add("scenarios", 1)
		for o := range outcomes {
			res.Distinct(fmt.Sprintf("%d:%x", si, hash(o)))
		}
		if rep.Capped {
			res.Exhaustive = false
			res.Note(fmt.Sprintf("scenario %q: time budget reached in shard %d after %d executions (preemption bound %d not completed)", sc.name, *shard, rep.Executions, b))
		}
		if *shard == 0 {
			smp := map[string]interface{}{"scenario": sc.name, "preemption_bound": b, "max_scheduling_points": rep.MaxPoints, "executions_in_shard_0": rep.Executions, "distinct_outcomes": len(outcomes)}
			if sc.choicesOnly {
				smp["preemption_bound"] = "none: every operation history (explicit choices) on the default schedule"
			}
			res.Sample(smp)
		}
		for _, f := range rep.Violations {
			res.Violate(f.V.Class, f.V.Where, fmt.Sprintf("[%s] %s", sc.name, f.V.What), map[string]interface{}{
				"scenario": sc.name, "scenario_index": si, "choices": f.Choices, "schedule": f.Trace, "observations": f.Obs,
				"replay": fmt.Sprintf("c15 -replay %d:%s", si, strings.Trim(strings.ReplaceAll(fmt.Sprint(f.Choices), " ", ","), "[]")),
			})
		}
	}
	res.Write(*out)
	_ = os.Stdout
}

func hash(s string) uint64 {
	var h uint64 = 1469598103934665603
	for i := 0; i < len(s); i++ {
		h ^= uint64(s[i])
		h *= 1099511628211
	}
	return h
}
