//go:build verif

// Verification-only hook (mapped into cmd/hidi with `go build -overlay`, tag verif).
// With HIDI_VERIF set, the binary runs one unexported function of package main in the current
// directory instead of the application, prints the outcome and exits. init() functions run in
// file-name order, so flag.Parse() in main.go's init has already happened.
package main

import (
	"fmt"
	"os"
	"sort"
	"strings"
)

func init() {
	mode := os.Getenv("HIDI_VERIF")
	if mode == "" {
		return
	}
	go func() { // keep the logger from blocking
		for range logMessagesForVerif() {
		}
	}()
	switch {
	case mode == "upkeep":
		code := 0
		func() {
			defer func() {
				if r := recover(); r != nil {
					fmt.Printf("VERIF-UPKEEP PANIC: %v\n", r)
					code = 3
				}
			}()
			if err := updateHIDIConfiguration(); err != nil {
				fmt.Printf("VERIF-UPKEEP ERROR: %v\n", err)
				code = 1
				return
			}
			fmt.Println("VERIF-UPKEEP OK")
		}()
		os.Exit(code)
	case strings.HasPrefix(mode, "loadhidi:"):
		dir := strings.TrimPrefix(mode, "loadhidi:")
		ents, err := os.ReadDir(dir)
		if err != nil {
			fmt.Println("VERIF-INFRA", err)
			os.Exit(2)
		}
		names := []string{}
		for _, e := range ents {
			names = append(names, e.Name())
		}
		sort.Strings(names)
		for _, n := range names {
			func() {
				defer func() {
					if r := recover(); r != nil {
						fmt.Printf("%s\tPANIC\t%v\n", n, strings.ReplaceAll(fmt.Sprint(r), "\n", " "))
					}
				}()
				c, err := LoadHIDIConfig(dir + "/" + n)
				if err != nil {
					fmt.Printf("%s\tERR\t%s\n", n, strings.ReplaceAll(err.Error(), "\n", " "))
				} else {
					fmt.Printf("%s\tOK\t%v\n", n, c)
				}
			}()
		}
		os.Exit(0)
	}
}
