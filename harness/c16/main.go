//go:build verif

// C16: device lifecycle. The real device package (events.go, device.go, open_rgb.go instrumented:
// scheduling points + data-access annotations) with a fake OpenRGB server under the controlled
// scheduler: prompt termination after the event stream ends, nothing left running, no
// unsynchronised access to device state, no cross-talk between devices.
package main

import (
	"flag"
	"fmt"
	"os"
	"path/filepath"
	"runtime"
	"runtime/pprof"
	"strings"
	"syscall"
	"time"

	"github.com/gethiox/HIDI/internal/pkg/input"
	"github.com/gethiox/HIDI/internal/pkg/logger"
	"github.com/gethiox/HIDI/internal/pkg/midi"
	"github.com/gethiox/HIDI/internal/pkg/midi/device"
	"github.com/gethiox/HIDI/internal/pkg/midi/device/config"
	"github.com/gethiox/HIDI/internal/verif/vsched"
	"github.com/gethiox/HIDI/internal/verif/vutil"
	"github.com/holoplot/go-evdev"
	"github.com/realbucksavage/openrgb-go"
)

const toml = `collision_mode = "interrupt"
exit_sequence = []
[identifier]
bus = 0
[defaults]
octave = 0
semitone = 0
channel = %d
mapping = "M0"
velocity = 64
[action_mapping]
KEY_ESC = "panic"
KEY_F2 = "octave_up"
KEY_F12 = "mapping_up"
[open_rgb]
white = 0x005500
black = 0x000055
c = 0x555500
unavailable = 0x440000
other = 0x440000
active = 0xffffff
active_external = 0xfefefe
[[mapping]]
name = "M0"
[[mapping.keys]]
subhandler = ""
[mapping.keys.map]
KEY_A = "%d"
KEY_S = "%d"
[[mapping.analog]]
subhandler = ""
default_deadzone = 0.1
[mapping.analog.map]
ABS_X = { type = "cc", cc = 20, cc_negative = 21 }
ABS_Y = { type = "pitch_bend" }
[[mapping]]
name = "M1"
`

var hnd = input.Handler{Name: "", DeviceInfo: input.VerifDeviceInfo("event3", "Dummy", "phys0", input.InputID{}, "", nil)}

func key(name string, v int32) *input.InputEvent {
	return &input.InputEvent{Source: hnd, Event: evdev.InputEvent{Type: evdev.EV_KEY, Code: evdev.KEYFromString[name], Value: v, Time: syscall.Timeval{}}}
}

func axisY(v int32) *input.InputEvent {
	return &input.InputEvent{Source: hnd, Event: evdev.InputEvent{Type: evdev.EV_ABS, Code: evdev.ABS_Y, Value: v, Time: syscall.Timeval{}}}
}

func axis(v int32) *input.InputEvent {
	return &input.InputEvent{Source: hnd, Event: evdev.InputEvent{Type: evdev.EV_ABS, Code: evdev.ABS_X, Value: v, Time: syscall.Timeval{}}}
}

var cfgCache = map[string]config.Config{}

func newDevice(ch, note int, out chan midi.Event, midiIn chan midi.Event) *device.Device {
	k := fmt.Sprintf("%d/%d", ch, note)
	cfg, ok := cfgCache[k]
	if !ok {
		var err error
		cfg, err = config.ParseData([]byte(fmt.Sprintf(toml, ch, note, note)))
		if err != nil {
			panic("VERIF-INFRA: " + err.Error())
		}
		cfgCache[k] = cfg
	}
	in := input.Device{Name: "Dummy", DeviceType: input.KeyboardDevice, Handlers: []input.Handler{hnd}, AbsInfos: map[string]map[evdev.EvCode]evdev.AbsInfo{"event3": {evdev.ABS_X: {Minimum: -128, Maximum: 127}, evdev.ABS_Y: {Minimum: -128, Maximum: 127}}}}
	var mi <-chan midi.Event
	if midiIn != nil {
		mi = midiIn
	}
	if freshDevices {
		// the constructor itself is part of what is explored (devices built one after the other in one process, as the manager does)
		d := device.NewDevice(in, config.DeviceConfig{ConfigFile: "c16", Config: cfg}, nil, nil, true, 6742, nil)
		device.VerifSetIO(&d, out, make(chan os.Signal, 4))
		device.VerifSetMidiIn(&d, mi)
		return &d
	}
	// NewDevice pre-fills 2048 counters (0.5 ms): build one template per configuration and clone it per execution
	tmpl, ok := tmplCache[k]
	if !ok {
		d := device.NewDevice(in, config.DeviceConfig{ConfigFile: "c16", Config: cfg}, nil, nil, true, 6742, nil)
		tmpl = &d
		tmplCache[k] = tmpl
	}
	d := device.VerifClone(tmpl, out, make(chan os.Signal, 4))
	device.VerifSetMidiIn(d, mi)
	return d
}

var tmplCache = map[string]*device.Device{}

// freshDevices: build every device with the real NewDevice instead of cloning a template (set per scenario)
var freshDevices = false

// fakeServer: with faults > 0 the environment may answer up to that many calls with an error (every placement is
// explored: an explicit choice at each call while budget is left), or die for good (all later calls fail).
type fakeServer struct {
	leds    []openrgb.LED
	faults  int
	failed  int
	dead    bool
	noMatch bool
}

func (f *fakeServer) fault(what string) bool {
	if f.dead {
		return true
	}
	if f.failed >= f.faults {
		return false
	}
	switch vsched.Choose(3, "openrgb-"+what) {
	case 1:
		f.failed++
		return true
	case 2:
		f.failed++
		f.dead = true
		return true
	}
	return false
}

func (f *fakeServer) ControllerCount() (int, error) {
	if f.fault("count") {
		return 0, fmt.Errorf("fake openrgb: connection lost")
	}
	return 1, nil
}
func (f *fakeServer) Controller(i int) (openrgb.Device, error) {
	if f.fault("controller") {
		return openrgb.Device{}, fmt.Errorf("fake openrgb: connection lost")
	}
	loc := "HID: /dev/hidraw0"
	if f.noMatch {
		loc = "HID: /dev/hidraw9" // some other keyboard: the device's controller is never found
	}
	return openrgb.Device{Type: 5, Name: "Fake Keyboard", Location: loc, LEDs: f.leds, Colors: make([]openrgb.Color, len(f.leds))}, nil
}
func (f *fakeServer) UpdateLEDs(i int, colors []openrgb.Color) error {
	if f.fault("update") {
		vsched.Observe("frame", "failed")
		return fmt.Errorf("fake openrgb: connection lost")
	}
	allRed := true
	var h uint32 = 2166136261
	for _, c := range colors {
		if c != (openrgb.Color{Red: 0xff}) {
			allRed = false
		}
		h = (h ^ uint32(c.Red)<<16 ^ uint32(c.Green)<<8 ^ uint32(c.Blue)) * 16777619
	}
	vsched.Observe("frame", fmt.Sprintf("%08x allred=%v", h, allRed))
	return nil
}

type scen struct {
	dBound        int  // added to the tier's preemption bound
	unbounded     bool // explore every interleaving (state-fingerprint pruning makes it finite)
	outCap        int  // capacity of the shared output channel (default 1)
	noEarlyTimers bool // timers / sleeps only fire when nothing else can run (keeps the OpenRGB connect loop out of the way)
	name          string
	rgb           bool
	midiIn        bool
	events        []*input.InputEvent
	two           bool
	stall         bool // the whole process is stalled (suspend, CPU starvation) for 6 s of virtual time at an arbitrary moment
	noMatch       bool // the LED server knows no controller for this device
	axisRest      bool // the script moves the bidirectional axis and ends with it at rest
	sameNote      bool // both devices play the SAME channel and pitch (separate output channels tell them apart)
	pace          int  // the feeder sleeps this many times before every event and before closing the stream (lets LED frames happen in between)
	faults        int  // number of OpenRGB calls the environment may fail (every placement)
}

func drain(out chan midi.Event, tag string) {
	vsched.Go("drainer", func() {
		vsched.Daemon()
		for {
			m, ok := vsched.In[midi.Event](out).Recv2()
			if !ok {
				return
			}
			vsched.Observe(tag, fmt.Sprintf("% x", []byte(m)))
		}
	})
}

func (sc scen) run() {
	freshDevices = sc.sameNote
	if sc.rgb {
		srv := &fakeServer{faults: sc.faults, noMatch: sc.noMatch}
		for _, n := range []string{"Key: A", "Key: S", "Key: Escape", "Key: F2", "Key: Q"} {
			srv.leds = append(srv.leds, openrgb.LED{Name: n})
		}
		openrgb.VerifConnect = func(string, int) (openrgb.Server, error) {
			if srv.fault("connect") {
				return nil, fmt.Errorf("fake openrgb: connection refused")
			}
			return srv, nil
		}
	} else {
		openrgb.VerifConnect = nil
	}
	oc := sc.outCap
	if oc == 0 {
		oc = 1
	}
	out := make(chan midi.Event, oc)
	vsched.Name(out, "midiOut")
	drain(out, "out")
	start := func(tag string, ch, note int, evs []*input.InputEvent) {
		var mi chan midi.Event
		if sc.midiIn {
			mi = make(chan midi.Event)
			vsched.Name(mi, "midiIn"+tag)
			vsched.Go("midi-feeder"+tag, func() {
				vsched.Daemon()
				vsched.Out[midi.Event](mi).Send(midi.NoteEvent(midi.NoteOn, 0, 60, 100))
				vsched.Out[midi.Event](mi).Send(midi.NoteEvent(midi.NoteOff, 0, 60, 0))
			})
		}
		o := out
		if sc.sameNote && tag == "B" {
			o = make(chan midi.Event, oc)
			vsched.Name(o, "midiOutB")
			drain(o, "outB")
		}
		dev := newDevice(ch, note, o, mi)
		in := make(chan *input.InputEvent)
		vsched.Name(in, "events"+tag)
		vsched.Go("device"+tag, func() {
			dev.ProcessEvents(in)
			vsched.Observe("processevents-returned"+tag, true)
			if !sc.two { // "leaves no background activity behind": nothing the device code started is still alive now
				var left []string
				for _, l := range vsched.Unfinished() {
					if strings.Contains(l, ".go:") && !strings.Contains(l, "main.go:") {
						left = append(left, l)
					}
				}
				if len(left) > 0 {
					vsched.Observe("left-behind", strings.Join(left, ", "))
				}
			}
		})
		vsched.Go("feeder"+tag, func() {
			for _, e := range evs {
				for i := 0; i < sc.pace; i++ {
					vsched.Sleep(300 * time.Millisecond)
				}
				vsched.Out[*input.InputEvent](in).Send(e)
			}
			for i := 0; i < sc.pace; i++ {
				vsched.Sleep(300 * time.Millisecond)
			}
			vsched.Observe("stream-closed"+tag, true)
			vsched.CloseBidi(in)
		})
	}
	if sc.stall {
		vsched.Go("system-stall", func() {
			vsched.Daemon()
			vsched.Sleep(6 * time.Second)
		})
	}
	start("A", 1, 60, sc.events)
	if sc.two && sc.sameNote {
		start("B", 1, 60, other(sc.events))
	} else if sc.two {
		start("B", 2, 72, other(sc.events))
	}
}

// other: the same script on the neighbouring key (device B uses different key codes than device A)
func other(evs []*input.InputEvent) []*input.InputEvent {
	var r []*input.InputEvent
	for _, e := range evs {
		name := "KEY_S"
		if e.Event.Code == evdev.KEYFromString["KEY_S"] {
			name = "KEY_A"
		}
		r = append(r, key(name, e.Event.Value))
	}
	return r
}

func outputs(x *vsched.Execution, chNibble byte) []string {
	var r []string
	for _, o := range x.Obs {
		if o.Kind == "out" {
			s := o.Val.(string)
			var st int
			fmt.Sscanf(s[:2], "%x", &st)
			if byte(st)&0x0f == chNibble {
				r = append(r, s)
			}
		}
	}
	return r
}

func (sc scen) check(solo map[string][]string) func(x *vsched.Execution) []vsched.Violation {
	return func(x *vsched.Execution) []vsched.Violation {
		var vs []vsched.Violation
		if x.Panic != "" {
			return []vsched.Violation{{"device-panics", strings.SplitN(x.Panic, ":", 2)[0], x.Panic}}
		}
		for _, r := range x.Races {
			f := strings.Fields(r)
			vs = append(vs, vsched.Violation{"data-race", f[3] + " " + posOnly(r), r})
		}
		if x.HorizonHit {
			vs = append(vs, vsched.Violation{"does-not-quiesce", sc.name, "the execution did not end within the scheduling-point horizon"})
			return vs
		}
		if x.Deadlock {
			var w []string
			for _, b := range x.Blocked {
				w = append(w, strings.SplitN(b, "@", 2)[0])
			}
			vs = append(vs, vsched.Violation{"device-does-not-terminate", strings.Join(w, " + "), "after the event stream ended these threads are blocked forever: " + strings.Join(x.Blocked, " | ")})
			return vs
		}
		// "ends promptly once its event stream ends": on the virtual clock (every sleep / timer that fired in between
		// counts, whoever slept) - the code's own waits are 10 ms (LED loop) and 250 ms (connect loop) long
		for _, tag := range []string{"A", "B"} {
			var closedAt, retAt time.Duration = -1, -1
			for _, o := range x.Obs {
				switch o.Kind {
				case "stream-closed" + tag:
					closedAt = o.Clock
				case "processevents-returned" + tag:
					retAt = o.Clock
				}
			}
			if !sc.stall && closedAt >= 0 && retAt >= 0 && retAt-closedAt > 5*time.Second { // (a stall of the whole process is the environment's doing)
				vs = append(vs, vsched.Violation{"termination-not-prompt", "device" + tag, fmt.Sprintf("device %s: %v of (virtual) time passed between the end of its event stream and the return of ProcessEvents", tag, retAt-closedAt)})
			}
		}
		if sc.axisRest {
			// what the receiver holds once everything has been delivered: the stick is at rest, both controllers are 0 -
			// however slowly the output was read (a full output queue must delay the device, never lose a message)
			cc := map[int]int{}
			n := 0
			for _, o := range x.Obs {
				if o.Kind == "out" {
					var st, a, b int
					fmt.Sscanf(o.Val.(string), "%x %x %x", &st, &a, &b)
					if st&0xf0 == 0xb0 {
						cc[a] = b
						n++
					}
				}
			}
			bend, bends := 8192, 0
			for _, o := range x.Obs {
				if o.Kind == "out" {
					var st, a, b int
					fmt.Sscanf(o.Val.(string), "%x %x %x", &st, &a, &b)
					if st&0xf0 == 0xe0 {
						bend = a | b<<7
						bends++
					}
				}
			}
			if bend != 8192 {
				vs = append(vs, vsched.Violation{"axis-at-rest-bend-not-centred", sc.name, fmt.Sprintf("the pitch-bend axis ended at rest, all output was delivered (%d pitch-bend messages), yet the receiver holds %d (centre is 8192)", bends, bend)})
			}
			if cc[20] != 0 || cc[21] != 0 {
				vs = append(vs, vsched.Violation{"axis-at-rest-controller-nonzero", sc.name, fmt.Sprintf("the axis ended at rest, all output was delivered (%d controller messages), yet the receiver holds cc20=%d cc21=%d", n, cc[20], cc[21])})
			}
		}
		for _, o := range x.Obs {
			if o.Kind == "left-behind" {
				vs = append(vs, vsched.Violation{"background-activity-left-behind", strings.SplitN(fmt.Sprint(o.Val), "@", 2)[0], fmt.Sprintf("ProcessEvents has returned but threads it started are still alive: %v", o.Val)})
				break
			}
		}
		if sc.rgb {
			last := ""
			for _, o := range x.Obs {
				if o.Kind == "frame" {
					last = o.Val.(string)
				}
			}
			if last != "" && last != "failed" && !strings.HasSuffix(last, "allred=true") {
				vs = append(vs, vsched.Violation{"final-frame-not-red", sc.name, "LED feedback was connected but the last frame sent before the device ended is not all red: " + last})
			}
		}
		if solo != nil {
			for tag, nib := range map[string]byte{"A": 0, "B": 1} {
				got := outputs(x, nib)
				if sc.sameNote { // same channel: told apart by the output channel they were given
					got = nil
					kind := map[string]string{"A": "out", "B": "outB"}[tag]
					for _, o := range x.Obs {
						if o.Kind == kind {
							got = append(got, o.Val.(string))
						}
					}
				}
				if strings.Join(got, ";") != strings.Join(solo[tag], ";") {
					vs = append(vs, vsched.Violation{"cross-talk", "device" + tag, fmt.Sprintf("device %s emitted %v next to another device, but %v when run alone", tag, got, solo[tag])})
				}
			}
		}
		return vs
	}
}

func posOnly(r string) string {
	var p []string
	for _, f := range strings.Fields(r) {
		if strings.Contains(f, ".go:") {
			p = append(p, f)
		}
	}
	return strings.Join(p, " ")
}

func scenarios(tier string) []scen {
	two := []*input.InputEvent{key("KEY_A", 1), key("KEY_S", 1)}
	lower := -1 // big scenarios run one preemption lower in the quick tier
	if tier == "thorough" {
		lower = 0
	}
	s := []scen{
		{name: "no-openrgb, notes held at disconnect", events: two},
		{name: "no-openrgb, midi input live", events: two[:1], midiIn: true},
		{name: "openrgb connected, notes held at disconnect", events: two, rgb: true},
		{name: "openrgb connected, midi input live", events: two[:1], rgb: true, midiIn: true, dBound: lower},
		{name: "two devices on one output (one key held at disconnect each)", events: []*input.InputEvent{key("KEY_A", 1)}, two: true, dBound: -2, unbounded: tier == "thorough", noEarlyTimers: true},
	}
	// the panic action replaces the MIDI-input tracker: any schedule exposes a missing lock through the happens-before
	// detector, so the non-preemptive schedules suffice in the quick tier (129 sends make higher bounds expensive)
	s = append(s, scen{name: "no-openrgb, panic while midi input is live", events: []*input.InputEvent{key("KEY_A", 1), key("KEY_ESC", 1)}, midiIn: true, dBound: -2, noEarlyTimers: true, outCap: 512})
	// the process does not get the CPU for several seconds (system suspend, starvation) at an arbitrary moment
	s = append(s, scen{name: "openrgb connected, the process stalls for 6 s at some point", events: two[:1], rgb: true, stall: true, pace: 1, dBound: -1},
		scen{name: "no-openrgb, the process stalls for 6 s at some point", events: two[:1], stall: true, pace: 1, dBound: -1})
	s = append(s, scen{name: "openrgb connected but no controller matches the device", events: two[:1], rgb: true, noMatch: true, pace: 1, dBound: -1})
	s = append(s, scen{name: "two devices playing the same channel and pitch", events: []*input.InputEvent{key("KEY_A", 1), key("KEY_A", 0)}, two: true, sameNote: true, dBound: -2, noEarlyTimers: true})
	// the 129-message panic burst through a slow output (capacity 64: the burst blocks twice), then the device goes away
	s = append(s, scen{name: "no-openrgb, panic through a slow output, then disconnect", events: []*input.InputEvent{key("KEY_ESC", 1)}, dBound: -2, outCap: 64})
	// a bidirectional axis swung from one end stop to the other and back to rest through the slow output
	s = append(s, scen{name: "no-openrgb, bidirectional axis through a slow output", events: []*input.InputEvent{axis(127), axis(-128), axis(0)}, axisRest: true})
	s = append(s, scen{name: "no-openrgb, pitch-bend axis through a slow output", events: []*input.InputEvent{axisY(127), axisY(-128), axisY(0)}, axisRest: true})
	// a key loses its function through a mapping switch while it is held and is released there, next to the LED loop
	s = append(s, scen{name: "openrgb connected, key released in a mapping where it has no function", events: []*input.InputEvent{key("KEY_A", 1), key("KEY_F12", 1), key("KEY_F12", 0), key("KEY_A", 0)}, rgb: true, dBound: -2, pace: 1})
	// environment faults: the LED server refuses / drops up to two calls, or goes away for good, at every possible call
	s = append(s, scen{name: "openrgb with faults (<=2 failing calls or server gone), press + release", events: []*input.InputEvent{key("KEY_A", 1), key("KEY_A", 0)}, rgb: true, faults: 2, pace: 2, dBound: -2})
	if tier == "thorough" {
		s = append(s,
			scen{name: "openrgb with faults (<=3 failing calls or server gone), midi input live", events: two, rgb: true, midiIn: true, faults: 3, pace: 2, dBound: -1},
			scen{name: "openrgb connected, octave change + release", events: []*input.InputEvent{key("KEY_A", 1), key("KEY_F2", 1), key("KEY_A", 0)}, rgb: true},
			scen{name: "openrgb connected, panic while midi input is live", events: []*input.InputEvent{key("KEY_A", 1), key("KEY_ESC", 1)}, rgb: true, midiIn: true, dBound: -2},
			scen{name: "two devices, press and release", events: []*input.InputEvent{key("KEY_A", 1), key("KEY_A", 0)}, two: true, noEarlyTimers: true},
			scen{name: "two devices, two keys held at disconnect each", events: two, two: true, noEarlyTimers: true, dBound: -2},
		)
	}
	return s
}

func main() {
	out := flag.String("out", "", "")
	shard := flag.Int("shard", 0, "")
	nshards := flag.Int("nshards", 1, "")
	tier := flag.String("tier", "quick", "")
	bound := flag.Int("bound", 2, "")
	only := flag.Int("scenario", -1, "")
	budget := flag.Duration("budget", 60*time.Second, "")
	list := flag.Bool("list", false, "")
	replay := flag.String("replay", "", "scenario:choices")
	prof := flag.String("cpuprofile", "", "")
	flag.Parse()
	if *prof != "" {
		pf, _ := os.Create(*prof)
		pprof.StartCPUProfile(pf)
		defer pprof.StopCPUProfile()
	}
	scs := scenarios(*tier)
	if *list {
		for i, s := range scs {
			fmt.Printf("%d %s\n", i, s.name)
		}
		return
	}
	runtime.GOMAXPROCS(1)
	go func() {
		for range logger.Messages {
		}
	}()
	root, err := os.MkdirTemp("", "verif_c16_sys")
	if err != nil {
		panic(err)
	}
	defer os.RemoveAll(root)
	os.MkdirAll(filepath.Join(root, "sys/class/hidraw/hidraw0/device/input/input7/event3"), 0o755)
	vsched.SysRoot = root
	res := vutil.NewResult()
	ropt := vsched.Options{Races: true, DefaultSleepBudget: 1, MaxPoints: 3000}
	if *replay != "" {
		var si int
		var cs string
		fmt.Sscanf(*replay, "%d:%s", &si, &cs)
		var choices []int
		for _, p := range strings.Split(cs, ",") {
			var c int
			if _, err := fmt.Sscanf(p, "%d", &c); err == nil {
				choices = append(choices, c)
			}
		}
		ropt.Trace = true
		x := vsched.Run(scs[si].run, choices, ropt)
		for i, t := range x.Trace {
			fmt.Printf("%3d %s\n", i, t)
		}
		for _, o := range x.Obs {
			fmt.Printf("obs [%d %s] %s %v\n", o.At, o.Thread, o.Kind, o.Val)
		}
		fmt.Println("blocked:", x.Blocked, "panic:", x.Panic, "races:", x.Races)
		os.RemoveAll(root)
		return
	}
	for si, sc := range scs {
		if *only >= 0 && si != *only {
			continue
		}
		var solo map[string][]string
		if sc.two {
			solo = map[string][]string{}
			one := sc
			one.two = false
			x := vsched.Run(one.run, nil, ropt)
			solo["A"] = outputs(x, 0)
			// device B alone: same events on channel 2 / note 72
			xb := vsched.Run(func() {
				outc := make(chan midi.Event, 1)
				drain(outc, "out")
				bch, bnote := 2, 72
				if sc.sameNote {
					bch, bnote = 1, 60
				}
				dev := newDevice(bch, bnote, outc, nil)
				in := make(chan *input.InputEvent)
				vsched.Go("deviceB", func() { dev.ProcessEvents(in) })
				vsched.Go("feederB", func() {
					for _, e := range other(sc.events) {
						vsched.Out[*input.InputEvent](in).Send(e)
					}
					vsched.CloseBidi(in)
				})
			}, nil, ropt)
			solo["B"] = outputs(xb, 1)
			if sc.sameNote {
				solo["B"] = outputs(xb, 0)
			}
		}
		outcomes := map[uint64]bool{}
		b := *bound + sc.dBound
		if b < 0 {
			b = 0
		}
		if sc.unbounded {
			b = -1
		}
		ropt := ropt
		if sc.noEarlyTimers {
			ropt.DefaultSleepBudget = 0
		}
		rep := vsched.Explore(sc.run, vsched.ExploreOpts{Run: ropt, Bound: b, Shard: *shard, NShards: *nshards, Deadline: time.Now().Add(*budget), Prune: true,
			Check: sc.check(solo),
			Outcome: func(x *vsched.Execution) string {
				var h uint64 = 1469598103934665603
				for _, o := range x.Obs {
					for _, c := range []byte(fmt.Sprintf("%s=%v;", o.Kind, o.Val)) {
						h = (h ^ uint64(c)) * 1099511628211
					}
				}
				outcomes[h] = true
				return ""
			}})
		res.Add("executions", rep.Executions)
		res.Add("evaluations", rep.Executions)
		res.Add("transitions", rep.Points)
		res.Add("states", int64(len(rep.StateHashes)))
		res.Add("replay_checks", int64(rep.ReplayChecks))
		res.Add("scenarios", 1)
		for o := range outcomes {
			res.Distinct(fmt.Sprintf("%d:%x", si, o))
		}
		if rep.Capped {
			res.Exhaustive = false
			res.Note(fmt.Sprintf("scenario %q: time budget reached in shard %d after %d executions (preemption bound %d not completed)", sc.name, *shard, rep.Executions, b))
		}
		if *shard == 0 {
			res.Sample(map[string]interface{}{"scenario": sc.name, "preemption_bound": b, "max_scheduling_points": rep.MaxPoints})
		}
		for _, f := range rep.Violations {
			res.Violate(f.V.Class, f.V.Where, fmt.Sprintf("[%s] %s", sc.name, f.V.What), map[string]interface{}{
				"scenario": sc.name, "choices": f.Choices, "schedule": f.Trace, "observations": f.Obs,
				"replay": fmt.Sprintf("c16 -replay %d:%s", si, strings.Trim(strings.ReplaceAll(fmt.Sprint(f.Choices), " ", ","), "[]"))})
		}
	}
	os.RemoveAll(root)
	res.Write(*out)
}
