//go:build verif

// C09: configuration parsing is total. Bounded-exhaustive enumeration of file contents
// (mutation closure of the shipped files, token sequences, raw bytes) fed to the real
// config.ParseData under recover + watchdog; -emit-hidi writes the hidi.toml inputs to a
// directory for the cmd/hidi hook binary (LoadHIDIConfig lives in package main).
package main

import (
	"context"
	"flag"
	"fmt"
	"os"
	"path/filepath"
	"regexp"
	"strings"
	"sync"
	"sync/atomic"
	"time"

	"github.com/gethiox/HIDI/internal/pkg/logger"
	"github.com/gethiox/HIDI/internal/pkg/midi/device/config"
	"github.com/gethiox/HIDI/internal/verif/vutil"
)

var aliens = []string{`"str"`, `7`, `-1`, `18446744073709551616`, `9223372036854775807`, `-9223372036854775808`, `4294967296`, `2147483648`, `1.5`, `inf`, `nan`, `true`, `1979-05-27`, `07:32:00`,
	`1979-05-27T07:32:00Z`, `1979-05-27T07:32:00`, `[]`, `[1]`, `["a"]`, `{}`, `{a=1}`, `""`, `0x10`, `'lit'`, `[[1]]`, `{type="cc"}`}

func init() {
	// near-valid strings (note-shaped, key-shaped, action-shaped, offset-shaped): every string-valued field gets them too
	for _, v := range []string{"h1", "e#2", "b#0", "c9", "g#8", "b-3", "c-0", "C#-2", "z", "c", "#1", "60,16", "60,", ",1", "c3,1,2", "60,-1", "999", "-1", "128", "KEY_", "KEY_NOPE", "xZZ", "x", "octave_sideways", "off ", "Piano", "\u0000"} {
		aliens = append(aliens, "\""+v+"\"")
	}
}

var kvRe = regexp.MustCompile(`^(\s*)([A-Za-z0-9_\-"]+)(\s*=\s*)(.*?)(\s*#.*)?$`)

const synthetic = `collision_mode = "interrupt"
exit_sequence = ["KEY_LEFTALT", "KEY_ESC"]
[identifier]
  bus = 0x03
  vendor = 0x054c
  product = 0x09cc
  version = 0x8111
  uniq = "aa:bb"
[defaults]
  octave = 0
  semitone = 0
  channel = 1
  mapping = "Default"
  velocity = 64
[action_mapping]
  BTN_SELECT = "channel_down"
  KEY_ESC = "panic"
[open_rgb]
  white = 0x005500
  black = 0x000055
  c = 0x555500
  unavailable = 0x440000
  other = 0x440000
  active = 0xffffff
  active_external = 0xffffff
[[mapping]]
  name = "Default"
  [[mapping.keys]]
    subhandler = ""
    [mapping.keys.map]
      BTN_A = "0"
      x1e = "c#3,2"
  [[mapping.analog]]
    subhandler = ""
    default_deadzone = 0.1
    [mapping.analog.map]
      ABS_X = { type = "cc", cc = 0 }
      ABS_Y = { type = "pitch_bend", flip_axis = true, channel_offset = 1 }
      ABS_RX = { type = "cc", cc = 1, cc_negative = 2, channel_offset = 1, channel_offset_negative = 2 }
      ABS_Z = { type = "cc", cc = 5, deadzone_at_center = true }
      ABS_HAT0X = { type = "action", action = "octave_up", action_negative = "octave_down" }
      ABS_HAT0Y = { type = "key", note = 60, note_negative = 62, flip_axis = true }
      ABS_RY = { type = "key", note = 61 }
    [mapping.analog.deadzones]
      ABS_Z = 0.0
      ABS_HAT0X = 0.0
  [[mapping.analog]]
    subhandler = "Touchpad"
    [mapping.analog.map]
      ABS_X = { type = "cc", cc = 7 }
[[mapping]]
  name = "Second"
`

type input struct {
	name string
	data []byte
}

func lines(b []byte) []string { return strings.SplitAfter(string(b), "\n") }

// mutate emits the mutation closure of one valid file.
func mutate(tag string, base []byte, everyByte, pairs bool, emit func(input)) {
	ls := lines(base)
	join := func(x []string) []byte { return []byte(strings.Join(x, "")) }
	emit(input{tag + ":intact", base})
	off := 0
	for i := range ls {
		del := append(append([]string{}, ls[:i]...), ls[i+1:]...)
		emit(input{fmt.Sprintf("%s:del-line-%d", tag, i+1), join(del)})
		dup := append(append(append([]string{}, ls[:i+1]...), ls[i]), ls[i+1:]...)
		emit(input{fmt.Sprintf("%s:dup-line-%d", tag, i+1), join(dup)})
		emit(input{fmt.Sprintf("%s:trunc-before-line-%d", tag, i+1), base[:off]})
		off += len(ls[i])
		line := strings.TrimRight(ls[i], "\n")
		if m := kvRe.FindStringSubmatch(line); m != nil {
			for _, a := range aliens {
				nl := m[1] + m[2] + m[3] + a + "\n"
				mut := append(append(append([]string{}, ls[:i]...), nl), ls[i+1:]...)
				emit(input{fmt.Sprintf("%s:line-%d-value-%s", tag, i+1, a), join(mut)})
			}
			for _, k := range []string{"a.b", `"quoted key"`, "unknown_key_zz", m[2] + ".x", `""`} {
				nl := m[1] + k + m[3] + m[4] + "\n"
				mut := append(append(append([]string{}, ls[:i]...), nl), ls[i+1:]...)
				emit(input{fmt.Sprintf("%s:line-%d-key-%s", tag, i+1, k), join(mut)})
			}
			// inline tables: mutate each field inside { ... }
			if strings.HasPrefix(strings.TrimSpace(m[4]), "{") {
				inner := strings.TrimSuffix(strings.TrimPrefix(strings.TrimSpace(m[4]), "{"), "}")
				fs := strings.Split(inner, ",")
				for fi := range fs {
					kv := strings.SplitN(fs[fi], "=", 2)
					if len(kv) != 2 {
						continue
					}
					rebuild := func(repl []string) string {
						return m[1] + m[2] + m[3] + "{" + strings.Join(repl, ",") + " }\n"
					}
					if fi == 0 {
						// a field that belongs to another mapping type is left behind / added (typical after changing `type`)
						for _, extra := range []string{`note_negative = 62`, `cc_negative = 3`, `action_negative = "octave_down"`, `note = 5`, `cc = 1`, `action = "panic"`,
							`channel_offset_negative = 1`, `flip_axis = true`, `deadzone_at_center = true`, `channel_offset = 2`} {
							r := append(append([]string{}, fs...), " "+extra)
							mut := append(append(append([]string{}, ls[:i]...), rebuild(r)), ls[i+1:]...)
							emit(input{fmt.Sprintf("%s:line-%d-extra-field-%s", tag, i+1, strings.Fields(extra)[0]), join(mut)})
						}
					}
					drop := append(append([]string{}, fs[:fi]...), fs[fi+1:]...)
					mut := append(append(append([]string{}, ls[:i]...), rebuild(drop)), ls[i+1:]...)
					emit(input{fmt.Sprintf("%s:line-%d-drop-field-%s", tag, i+1, strings.TrimSpace(kv[0])), join(mut)})
					for _, a := range aliens {
						r := append([]string{}, fs...)
						r[fi] = kv[0] + "= " + a
						mut := append(append(append([]string{}, ls[:i]...), rebuild(r)), ls[i+1:]...)
						emit(input{fmt.Sprintf("%s:line-%d-field-%s-value-%s", tag, i+1, strings.TrimSpace(kv[0]), a), join(mut)})
					}
				}
			}
		}
	}
	// table level: drop a whole table (header and body), or empty it (header kept, body dropped)
	isHeader := func(l string) bool { return strings.HasPrefix(strings.TrimSpace(l), "[") }
	for i := range ls {
		if !isHeader(ls[i]) {
			continue
		}
		j := i + 1
		for j < len(ls) && !isHeader(ls[j]) {
			j++
		}
		emit(input{fmt.Sprintf("%s:del-table-at-line-%d", tag, i+1), join(append(append([]string{}, ls[:i]...), ls[j:]...))})
		if j > i+1 {
			emit(input{fmt.Sprintf("%s:empty-table-at-line-%d", tag, i+1), join(append(append([]string{}, ls[:i+1]...), ls[j:]...))})
		}
	}
	if pairs {
		// every contiguous range of lines removed
		for i := range ls {
			for j := i + 2; j <= len(ls); j++ {
				emit(input{fmt.Sprintf("%s:del-range-%d-%d", tag, i+1, j), join(append(append([]string{}, ls[:i]...), ls[j:]...))})
			}
		}
	}
	if everyByte {
		for n := 0; n < len(base); n++ {
			emit(input{fmt.Sprintf("%s:trunc-at-byte-%d", tag, n), base[:n]})
		}
	}
	if pairs {
		for i := range ls {
			for j := i + 1; j < len(ls); j++ {
				del := append(append(append([]string{}, ls[:i]...), ls[i+1:j]...), ls[j+1:]...)
				emit(input{fmt.Sprintf("%s:del-lines-%d-%d", tag, i+1, j+1), join(del)})
			}
		}
	}
}

var tokens = []string{"[", "]", "[[", "]]", "=", ".", ",", "{", "}", "\n", "mapping", "analog", "map", "ABS_X", `"cc"`, "1979-05-27"}

func tokenSeqs(maxLen int, emit func(input)) {
	idx := make([]int, 0, maxLen)
	var rec func()
	rec = func() {
		if len(idx) > 0 {
			var b strings.Builder
			for _, i := range idx {
				b.WriteString(tokens[i])
				if tokens[i] != "\n" {
					b.WriteByte(' ')
				}
			}
			emit(input{"tokens", []byte(b.String())})
		}
		if len(idx) == maxLen {
			return
		}
		for i := range tokens {
			idx = append(idx, i)
			rec()
			idx = idx[:len(idx)-1]
		}
	}
	rec()
}

func rawBytes(tier string, emit func(input)) {
	emit(input{"raw", []byte{}})
	for a := 0; a < 256; a++ {
		emit(input{"raw", []byte{byte(a)}})
		for b := 0; b < 256; b++ {
			emit(input{"raw", []byte{byte(a), byte(b)}})
		}
	}
	alpha := []byte{'a', '=', '1', '"', '[', ']', '\n', '.', '{', '}', '#', 0xff}
	var rec func(buf []byte, max int)
	rec = func(buf []byte, max int) {
		if len(buf) >= 3 {
			emit(input{"raw", append([]byte{}, buf...)})
		}
		if len(buf) == max {
			return
		}
		for _, c := range alpha {
			rec(append(buf, c), max)
		}
	}
	max := 4
	if tier == "thorough" {
		max = 5
	}
	rec(nil, max)
}

var hidiFields = []string{"pool_rate", "discovery_rate", "stabilization_period", "log_view_rate", "log_buffer_size"}

func hidiMatrix(emit func(input)) {
	vals := []string{"0", "1", "-1", "120", "9223372036854775807", `"x"`, "1979-05-27", "1.5", "true"}
	// every subset of the five fields absent; each present field takes each value while the others stay sane
	for mask := 0; mask < 32; mask++ {
		var b strings.Builder
		b.WriteString("[HIDI]\n")
		for i, f := range hidiFields {
			if mask&(1<<i) != 0 {
				fmt.Fprintf(&b, "%s = %d\n", f, 100+i)
			}
		}
		emit(input{fmt.Sprintf("hidi:subset-%02d", mask), []byte(b.String())})
		for i, f := range hidiFields {
			if mask&(1<<i) == 0 {
				continue
			}
			for _, v := range vals {
				var c strings.Builder
				c.WriteString("[HIDI]\n")
				for j, g := range hidiFields {
					if mask&(1<<j) != 0 {
						if j == i {
							fmt.Fprintf(&c, "%s = %s\n", g, v)
						} else {
							fmt.Fprintf(&c, "%s = %d\n", g, 100+j)
						}
					}
				}
				emit(input{fmt.Sprintf("hidi:subset-%02d-%s-%s", mask, f, v), []byte(c.String())})
			}
		}
	}
	emit(input{"hidi:empty", nil})
	emit(input{"hidi:no-table", []byte("pool_rate = 1\n")})
	emit(input{"hidi:table-is-value", []byte("HIDI = 1\n")})
	emit(input{"hidi:table-is-array", []byte("[[HIDI]]\npool_rate = 1\n")})
}

func normalize(msg string) string {
	msg = regexp.MustCompile(`[0-9]+`).ReplaceAllString(msg, "N")
	if len(msg) > 90 {
		msg = msg[:90]
	}
	return msg
}

func main() {
	out := flag.String("out", "", "")
	shard := flag.Int("shard", 0, "")
	nshards := flag.Int("nshards", 1, "")
	tier := flag.String("tier", "quick", "")
	repo := flag.String("repo", "/repo", "")
	emitHidi := flag.String("emit-hidi", "", "write the hidi.toml inputs into this directory and exit")
	flag.Parse()
	go func() {
		for range logger.Messages {
		}
	}()
	cfgRoot := filepath.Join(*repo, "cmd/hidi/hidi-config")

	if *emitHidi != "" {
		n := 0
		base, err := os.ReadFile(filepath.Join(cfgRoot, "hidi.toml"))
		if err != nil {
			fmt.Fprintln(os.Stderr, err)
			os.Exit(2)
		}
		write := func(in input) {
			os.WriteFile(filepath.Join(*emitHidi, fmt.Sprintf("%06d", n)), in.data, 0o644)
			n++
		}
		var names []string
		emit := func(in input) { names = append(names, in.name); write(in) }
		mutate("hidi.toml", base, true, true, emit)
		hidiMatrix(emit)
		os.WriteFile(filepath.Join(*emitHidi, "..", "names.txt"), []byte(strings.Join(names, "\n")), 0o644)
		fmt.Println(n)
		return
	}

	res := vutil.NewResult()
	var files []string
	filepath.Walk(filepath.Join(cfgRoot, "factory"), func(p string, info os.FileInfo, err error) error {
		if err == nil && !info.IsDir() && strings.HasSuffix(strings.ToLower(p), ".toml") {
			files = append(files, p)
		}
		return nil
	})
	if len(files) == 0 {
		vutil.Fail(*out, "no factory TOML files found under "+cfgRoot)
	}

	type work struct {
		in input
	}
	ch := make(chan input, 256)
	var wg sync.WaitGroup
	var busy [64]atomic.Int64
	var busyName [64]atomic.Value
	nw := 4
	for w := 0; w < nw; w++ {
		wg.Add(1)
		go func(w int) {
			defer wg.Done()
			for in := range ch {
				busyName[w].Store(in)
				busy[w].Store(time.Now().UnixNano())
				func() {
					defer func() {
						if r := recover(); r != nil {
							msg := fmt.Sprint(r)
							res.Violate("parse-panics", normalize(msg), fmt.Sprintf("config.ParseData panicked on input %q: %s", in.name, msg),
								map[string]interface{}{"input_name": in.name, "content": string(in.data), "panic": msg})
							res.Distinct("panic:" + normalize(msg))
						}
					}()
					cfg, err := config.ParseData(in.data)
					if err != nil {
						res.Add("errors", 1)
						res.Distinct("err:" + normalize(err.Error()))
						// error => zero configuration
						if len(cfg.KeyMappings) != 0 || len(cfg.ActionMapping) != 0 {
							res.Violate("error-with-nonzero-config", normalize(err.Error()), "ParseData returned an error together with a non-empty configuration", map[string]interface{}{"input_name": in.name, "content": string(in.data)})
						}
					} else {
						res.Add("accepted", 1)
						res.Distinct("ok:" + in.name)
					}
				}()
				busy[w].Store(0)
				res.Add("evaluations", 1)
			}
		}(w)
	}
	// file layer: the same content read the way the running application reads it - a *.toml file in a configuration
	// directory, through the real LoadDeviceConfigs (open, read, ParseData, wrap). Differential oracle: it returns, does
	// not panic, reports no error for a complete tree, and holds a configuration exactly when ParseData accepts the content.
	// One goroutine per process (the loader resolves its directories against the process-wide working directory).
	fch := make(chan input, 256)
	fdone := make(chan struct{})
	const fw = 63 // watchdog slot of the file worker
	tree, terr := os.MkdirTemp("", "verif_c09_")
	if terr != nil {
		vutil.Fail(*out, terr.Error())
	}
	defer os.RemoveAll(tree)
	for _, d := range []string{"factory/gamepad", "factory/keyboard", "user/gamepad", "user/keyboard"} {
		os.MkdirAll(filepath.Join(tree, "hidi-config", d), 0o755)
	}
	if abs, err := filepath.Abs(*out); err == nil {
		*out = abs
	}
	if err := os.Chdir(tree); err != nil {
		vutil.Fail(*out, err.Error())
	}
	go func() {
		defer close(fdone)
		file := filepath.Join(tree, "hidi-config", "user", "keyboard", "x.toml")
		for in := range fch {
			busyName[fw].Store(in)
			busy[fw].Store(time.Now().UnixNano())
			if err := os.WriteFile(file, in.data, 0o644); err != nil {
				vutil.Fail(*out, err.Error())
			}
			func() {
				defer func() {
					if r := recover(); r != nil {
						msg := fmt.Sprint(r)
						res.Violate("config-file-read-panics", normalize(msg), fmt.Sprintf("LoadDeviceConfigs panicked on a file with content %q: %s", in.name, msg),
							map[string]interface{}{"input_name": in.name, "content": string(in.data), "panic": msg})
					}
				}()
				_, perr := config.ParseData(in.data)
				cfgs, lerr := config.LoadDeviceConfigs(context.Background(), &sync.WaitGroup{})
				if lerr != nil {
					res.Violate("config-file-read-fails-the-load", normalize(lerr.Error()), fmt.Sprintf("LoadDeviceConfigs returned an error (%v) for a complete tree whose only file has content %q", lerr, in.name),
						map[string]interface{}{"input_name": in.name, "content": string(in.data)})
					return
				}
				n := len(cfgs.User.Keyboards) + len(cfgs.User.Gamepads) + len(cfgs.Factory.Keyboards) + len(cfgs.Factory.Gamepads)
				if (perr == nil) != (n == 1) || len(cfgs.User.Keyboards) != n {
					res.Violate("config-file-read-differs-from-parse", fmt.Sprint(perr == nil, n), fmt.Sprintf("content %q: ParseData error=%v, but the loader holds %d configuration(s) after reading it from a file", in.name, perr, n),
						map[string]interface{}{"input_name": in.name, "content": string(in.data)})
				}
			}()
			busy[fw].Store(0)
			res.Add("file_layer_evaluations", 1)
		}
	}()
	go func() { // hang watchdog
		for {
			time.Sleep(5 * time.Second)
			now := time.Now().UnixNano()
			for _, w := range []int{0, 1, 2, 3, fw} {
				if b := busy[w].Load(); b != 0 && now-b > int64(30*time.Second) {
					in, _ := busyName[w].Load().(input)
					if w == fw {
						res.Violate("config-file-read-hangs", in.name, "LoadDeviceConfigs did not return within 30 s for a configuration file with this content (normal cost: microseconds)", map[string]interface{}{"input_name": in.name, "content": string(in.data)})
					} else {
						res.Violate("parse-hangs", in.name, "config.ParseData did not return within 30 s (normal cost: microseconds)", map[string]interface{}{"input_name": in.name, "content": string(in.data)})
					}
					os.RemoveAll(tree)
					res.Exhaustive = false
					res.Write(*out)
					os.Exit(0)
				}
			}
		}
	}()
	n, fn := 0, 0
	emit := func(in input) {
		n++
		if n%*nshards == *shard {
			if len(res.Samples) < 4 && n%9973 == 1 {
				res.Sample(map[string]interface{}{"name": in.name, "content_prefix": string(in.data[:min(len(in.data), 120)])})
			}
			ch <- in
			// file layer: every content of at most 2 bytes and a fixed 1-in-61 stride of this process's share of the enumeration
			fn++
			if len(in.data) <= 2 || fn%61 == 0 {
				fch <- in
			}
		}
	}
	for _, f := range files {
		b, err := os.ReadFile(f)
		if err != nil {
			vutil.Fail(*out, err.Error())
		}
		mutate(filepath.Base(f), b, len(b) <= 2048 || *tier == "thorough", *tier == "thorough", emit)
	}
	mutate("synthetic", []byte(synthetic), true, true, emit)
	maxTok := 5
	if *tier == "thorough" {
		maxTok = 6
	}
	tokenSeqs(maxTok, emit)
	rawBytes(*tier, emit)
	close(ch)
	close(fch)
	wg.Wait()
	<-fdone
	res.Add("generated_total", int64(n))
	res.Write(*out)
}

func min(a, b int) int {
	if a < b {
		return a
	}
	return b
}
