//go:build verif

package main

import (
	"fmt"
	"os"

	"github.com/gethiox/HIDI/internal/pkg/midi"
	"github.com/gethiox/HIDI/internal/pkg/midi/device"
	"github.com/gethiox/HIDI/internal/verif/vutil"
)

// C04(a): arithmetic grid on the real device. A generated mapping holds one key per base
// note 0..127 (offset 0) plus keys with every channel offset 0..15 on three pitches. Octave /
// semitone / channel are moved with real action key presses; after every move keys are pressed
// and released and compared with the unbounded-integer reference.

type gridDev struct {
	d     *Desc
	alpha []Sym
	idx   map[string]int
	dev   *device.Device
	out   chan midi.Event
	ref   Ref
}

func hexKey(code int) string { return fmt.Sprintf("x%x", code) }

func newGrid(vel int, defCh int) *gridDev {
	d := base("grid", "off")
	d.Velocity = vel
	d.Channel = defCh
	keys := km{}
	for n := 0; n < 128; n++ {
		keys[hexKey(0x200+n)] = KeyNote{n, 0}
	}
	for off := 0; off < 16; off++ {
		for pi, p := range []int{0, 64, 127} {
			keys[hexKey(0x300+pi*16+off)] = KeyNote{p, off}
		}
	}
	d.Mappings = []MapDesc{{Name: "M0", Keys: keys}}
	acts(d, OU, "octave_up", OD, "octave_down", SU, "semitone_up", SD, "semitone_down", CU, "channel_up", CD, "channel_down")
	g := &gridDev{d: d, out: make(chan midi.Event, 4096), idx: map[string]int{}}
	g.alpha = d.hexAlphabet()
	for i, s := range g.alpha {
		g.idx[s.Name] = i
	}
	dev, err := d.Build(g.out, make(chan os.Signal, 4))
	if err != nil {
		panic("VERIF-INFRA: " + err.Error())
	}
	g.dev = dev
	g.ref = NewRef(d)
	return g
}

func (g *gridDev) send(name string, val int32) []midi.Event {
	device.VerifStep(g.dev, inputEvent(g.alpha, Event{g.idx[name], val}))
	var ms []midi.Event
	for len(g.out) > 0 {
		ms = append(ms, <-g.out)
	}
	return ms
}

func (g *gridDev) tap(action string) {
	g.send(action, 1)
	g.send(action, 0)
	g.ref.ActionPress(g.d, g.d.Actions[action])
	g.ref.ActionRelease(g.d, g.d.Actions[action])
}

func (g *gridDev) probe(res *vutil.Result, key string, path string) {
	kn := g.d.Mappings[0].Keys[key]
	ch, pitch, ok := g.ref.Transpose(kn.Note, kn.Offset)
	vel := g.d.Velocity
	if vel == 0 {
		vel = 64
	}
	on := g.send(key, 1)
	off := g.send(key, 0)
	res.Add("evaluations", 1)
	desc := fmt.Sprintf("base %d offset %d at octave %d semitone %d channel %d", kn.Note, kn.Offset, g.ref.Oct, g.ref.Sem, g.ref.Ch+1)
	detail := map[string]interface{}{"base": kn.Note, "offset": kn.Offset, "octave": g.ref.Oct, "semitone": g.ref.Sem, "channel": g.ref.Ch + 1, "reached_by": path,
		"press_output": msgStrings(on), "release_output": msgStrings(off)}
	if !ok {
		if len(on) != 0 || len(off) != 0 {
			res.Violate("out-of-range-sounds", fmt.Sprintf("oct=%d,sem=%d,base=%d", g.ref.Oct, g.ref.Sem, kn.Note),
				fmt.Sprintf("%s: the sum %d is outside 0-127 and nothing may be sent, but press emitted %v", desc, pitch, msgStrings(on)), detail)
		}
		return
	}
	res.Distinct(fmt.Sprintf("%d/%d", ch, pitch))
	if len(on) != 1 || len(on[0]) != 3 || on[0][0] != byte(0x90|ch) || int(on[0][1]) != pitch || int(on[0][2]) != vel {
		res.Violate("wrong-note-on", fmt.Sprintf("oct=%d,sem=%d,ch=%d,base=%d,off=%d", g.ref.Oct, g.ref.Sem, g.ref.Ch, kn.Note, kn.Offset),
			fmt.Sprintf("%s: expected NoteOn ch%d pitch %d velocity %d, press emitted %v", desc, ch+1, pitch, vel, msgStrings(on)), detail)
		return
	}
	if len(off) != 1 || len(off[0]) != 3 || off[0][0] != byte(0x80|ch) || int(off[0][1]) != pitch {
		res.Violate("wrong-note-off", fmt.Sprintf("oct=%d,sem=%d,ch=%d,base=%d,off=%d", g.ref.Oct, g.ref.Sem, g.ref.Ch, kn.Note, kn.Offset),
			fmt.Sprintf("%s: expected NoteOff ch%d pitch %d, release emitted %v", desc, ch+1, pitch, msgStrings(off)), detail)
	}
}

func (g *gridDev) checkState(res *vutil.Result, path string) bool {
	st := g.dev.State()
	if int(st.Octave) != g.ref.Oct || int(st.Semitone) != g.ref.Sem || int(st.Channel) != g.ref.Ch {
		res.Violate("counter-step", fmt.Sprintf("oct=%d,sem=%d,ch=%d", g.ref.Oct, g.ref.Sem, g.ref.Ch),
			fmt.Sprintf("after %s the device reports octave %d semitone %d channel %d; stepping by exactly one gives octave %d semitone %d channel %d", path, st.Octave, st.Semitone, st.Channel+1, g.ref.Oct, g.ref.Sem, g.ref.Ch+1),
			map[string]interface{}{"reached_by": path, "device": fmt.Sprintf("%+v", st), "reference": fmt.Sprintf("%+v", g.ref)})
		return false
	}
	return true
}

func gridC04(res *vutil.Result, tier string, shard, nshards int) {
	span := 14
	// (1) octave x semitone grid, all 128 bases; sharded on the octave
	job := 0
	for _, vel := range []int{64, 1, 127, 0} {
		for oct := -span; oct <= span; oct++ {
			if vel != 64 && (oct%5 != 0) {
				continue
			}
			job++
			if job%nshards != shard {
				continue
			}
			g := newGrid(vel, 1)
			dir, n := OU, oct
			if oct < 0 {
				dir, n = OD, -oct
			}
			for i := 0; i < n; i++ {
				g.tap(dir)
			}
			sem := 0
			walk := func(dirKey string, steps int) {
				for s := 0; s <= steps; s++ {
					if s > 0 {
						g.tap(dirKey)
						if dirKey == SU {
							sem++
						} else {
							sem--
						}
					}
					path := fmt.Sprintf("%d x %s, %d semitone steps (velocity %d)", n, g.d.Actions[dir], sem, vel)
					if !g.checkState(res, path) {
						return
					}
					for b := 0; b < 128; b++ {
						g.probe(res, hexKey(0x200+b), path)
					}
				}
			}
			walk(SU, span)
			for sem > 0 { // back to 0, then downwards
				g.tap(SD)
				sem--
			}
			walk(SD, span)
			if oct == 0 && vel == 64 {
				res.Sample(map[string]interface{}{"octave": oct, "semitone_walk": "0..+14 then 0..-14", "keys": "128 bases"})
			}
		}
	}
	// (2) full channel x offset table on three pitches, from both default channels
	for _, defCh := range []int{1, 16, 7} {
		job++
		if job%nshards != shard {
			continue
		}
		g := newGrid(64, defCh)
		visit := func(path string) {
			if !g.checkState(res, path) {
				return
			}
			for off := 0; off < 16; off++ {
				for pi := 0; pi < 3; pi++ {
					g.probe(res, hexKey(0x300+pi*16+off), path)
				}
			}
		}
		visit(fmt.Sprintf("default channel %d", defCh))
		for i := 0; i < 17; i++ {
			g.tap(CU)
			visit(fmt.Sprintf("default channel %d, %d x channel_up", defCh, i+1))
		}
		for i := 0; i < 17; i++ {
			g.tap(CD)
			visit(fmt.Sprintf("default channel %d, 17 x channel_up, %d x channel_down", defCh, i+1))
		}
	}
	// (3) thorough: the 8-bit counters themselves: 130 presses in each direction
	if tier == "thorough" {
		for wi, w := range []string{OU, OD, SU, SD} {
			job++
			if job%nshards != shard {
				continue
			}
			_ = wi
			g := newGrid(64, 1)
			for i := 1; i <= 130; i++ {
				g.tap(w)
				path := fmt.Sprintf("%d x %s", i, g.d.Actions[w])
				if !g.checkState(res, path) {
					break
				}
				for _, b := range []int{0, 1, 59, 60, 126, 127} {
					g.probe(res, hexKey(0x200+b), path)
				}
			}
		}
	}
}

// hexAlphabet: alphabet for descriptions whose keys are given as x<hex> codes.
func (d *Desc) hexAlphabet() []Sym {
	var out []Sym
	seen := map[string]bool{}
	add := func(k, action string) {
		if seen[k] {
			return
		}
		seen[k] = true
		out = append(out, Sym{Name: k, Code: keyCode(k), Action: action})
	}
	for _, m := range d.Mappings {
		for _, k := range sortedKeys(m.Keys) {
			add(k, d.Actions[k])
		}
	}
	for _, k := range sortedKeys(d.Actions) {
		add(k, d.Actions[k])
	}
	return out
}
