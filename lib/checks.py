"""Per-property check drivers. Each builds its harness from $VERIF_REPO's current
working tree (overlay build, tag verif), runs it sharded over the cores, merges the
shard results and hands them to vlib.finish (evidence + verdict)."""
import os
import tempfile

import vlib

REGISTRY = {}


def check(pid):
    def deco(f):
        REGISTRY[pid] = f
        return f
    return deco


def sharded(binary, tier, nshards, extra=(), workdir=None):
    d = tempfile.mkdtemp(prefix="vres_", dir=vlib.BUILD)
    jobs = []
    for i in range(nshards):
        res = os.path.join(d, "r%d.json" % i)
        jobs.append(([binary, "-out", res, "-shard", str(i), "-nshards", str(nshards), "-tier", tier] + list(extra), res))
    try:
        return vlib.run_jobs(jobs)
    finally:
        import shutil
        shutil.rmtree(d, ignore_errors=True)


def generic_cov(m, rule, extra=None):
    c = m["counters"]
    cov = {
        "evaluations": int(c.get("evaluations", 0)),
        "distinct_nontrivial": len(m["distinct_keys"]),
        "rule": rule,
    }
    for k, v in c.items():
        if k not in cov and not k.startswith("violations:"):
            cov[k] = int(v)
    if extra:
        cov.update(extra)
    return cov


# ------------------------------------------------------------------ C11
@check("C11")
def c11(prop, tier, t0):
    binary, bt = vlib.build("c11")
    m = vlib.merge(sharded(binary, tier, vlib.NCPU))
    cov = generic_cov(m, "every string of length <=4 over [a-zA-Z0-9#- ] (thorough: + length <=5 over 29 symbols incl. "
                         "NUL/newline/non-ASCII, length <=7 over 12 symbols) fed to config.StringToNote and compared with a "
                         "reference acceptor/valuation written from the statement; all 128 numbers rendered and parsed back. "
                         "distinct_nontrivial = distinct accepted strings (case-folded).",
                      {"build_s": round(bt, 1)})
    # the same conversions called by two (thorough: three) configuration readers at once, first use included (Engine B)
    sm, scov = engb_run(prop, tier, "c20s", 2 if tier == "quick" else 3, select=lambda n: n.startswith("notes:"))
    m["violations"].extend(sm["violations"])
    m["exhaustive"] = m["exhaustive"] and sm["exhaustive"]
    cov["concurrent_reader_executions"] = scov["executions"]
    cov["rule"] += (" Plus (Engine B, instrumented event.go under the controlled scheduler) two/three threads converting names concurrently from the first use on: every schedule up to the "
                    "preemption bound, each result equal to the sequential one, no happens-before race on package-level state.")
    return vlib.finish(prop, tier, "exploration", m, cov, [
        "strings longer than the stated bounds are not enumerated",
        "the spelling '-0' for octave 0 is treated as don't-care (accepting it as octave 0 or rejecting it are both fine)",
    ], t0)


# ------------------------------------------------------------------ Engine A (BFS on the real Device)
def enga_run(prop, tier, workers_per_job=4):
    binary, bt = vlib.build("enga")
    p = vlib.run([binary, "-prop", prop, "-tier", tier, "-list"])
    names = [l.split(" ", 1) for l in p.stdout.strip().splitlines() if l.strip()]
    d = tempfile.mkdtemp(prefix="vres_", dir=vlib.BUILD)
    jobs = []
    for idx, _name in names:
        res = os.path.join(d, "r%s.json" % idx)
        jobs.append(([binary, "-prop", prop, "-tier", tier, "-job", idx, "-workers", str(workers_per_job), "-out", res], res))
    try:
        rs = vlib.run_jobs(jobs, workers=max(1, vlib.NCPU // workers_per_job + 1))
    finally:
        import shutil
        shutil.rmtree(d, ignore_errors=True)
    m = vlib.merge(rs)
    per = {}
    for (idx, name), r in zip(names, rs):
        c = r.get("counters") or {}
        per[name] = {"states": c.get("states", 0), "transitions": c.get("transitions", 0), "distinct_step_outputs": c.get("distinct_step_outputs", 0)}
    c = m["counters"]
    cov = {
        "states": int(c.get("states", 0)), "transitions": int(c.get("transitions", 0)),
        "traces_validated_against_impl": int(c.get("traces_validated_against_impl", 0)),
        "scenarios": int(c.get("scenarios", 0)), "max_depth": max([(r.get("counters") or {}).get("max_depth", 0) for r in rs] + [0]),
        "distinct_step_outputs": int(c.get("distinct_step_outputs", 0)),
        "per_scenario": per, "build_s": round(bt, 1),
    }
    return m, cov


ENGA_ASSUME = [
    "device behaviour is a deterministic function of the dumped Device fields and the next event (checked: every state's witness is replayed on a fresh device through the real ProcessEvents and must give identical output)",
    "bounded domains: the driver does not offer an action that leaves the stated octave/semitone/channel set, nor a third action press while a complete up/down pair is held; inside the domain the search runs to a fixpoint (unbounded depth)",
    "alphabet: the keys/axes of the listed scenarios; one sub-handler",
]


def grid_run(grid, tier, nshards=None):
    binary, _bt = vlib.build("enga")
    return vlib.merge(sharded(binary, tier, nshards or vlib.NCPU, extra=["-grid", grid]))


GRIDS = {"C04": "c04", "C05": "c05", "C08": "c08"}


def enga_check(prop, tier, t0, what):
    m, cov = enga_run(prop, tier)
    cov["explanation"] = what
    assume = list(ENGA_ASSUME)
    if prop in GRIDS:
        g = grid_run(GRIDS[prop], tier)
        m["violations"].extend(g["violations"])
        m["exhaustive"] = m["exhaustive"] and g["exhaustive"]
        m["samples"] = (m["samples"][:6] + g["samples"][:6])
        for k, v in g["counters"].items():
            if not k.startswith("violations:"):
                cov["grid_" + k] = int(v)
        cov["grid_distinct"] = len(g["distinct_keys"])
        cov["evaluations"] = cov["transitions"] + int(g["counters"].get("evaluations", 0))
        cov["distinct_nontrivial"] = cov["distinct_step_outputs"] + len(g["distinct_keys"])
    if prop == "C04":
        cov["explanation"] += "; plus the arithmetic grid on the real device: every base note 0-127 x every (octave, semitone) in [-14,14]^2 reached by real action presses x velocities, the full 16x16 channel x offset table on three pitches (thorough: 130 presses of every octave/semitone action)"
        assume.append("grid: octave and semitone within +-14 (thorough: single-parameter walks to +-130)")
    if prop == "C07":
        # the same oracle at the receiver when the output is read slowly: the instrumented device under the controlled scheduler,
        # output channel of capacity 1, every schedule up to the preemption bound (a full queue delays the device, it never loses a message)
        bm, bcov = engb_run(prop, tier, "c16", 2 if tier == "quick" else 3, budget="45s" if tier == "quick" else "600s", select=lambda n: "bidirectional axis" in n)
        m["violations"].extend(bm["violations"])
        m["exhaustive"] = m["exhaustive"] and bm["exhaustive"]
        cov["slow_output_executions"] = bcov["executions"]
        cov["slow_output_preemption_bound"] = bcov["preemption_bound"]
        cov["explanation"] += "; plus, under the controlled scheduler, the axis swung end stop to end stop and back to rest through an output channel of capacity 1 with a consumer of arbitrary speed: all schedules up to the preemption bound, both controllers 0 at the receiver at the end"
    if prop == "C08":
        cov["explanation"] += "; plus a transposition walk on the real device: octave, semitone and both together moved by real action presses to +-24 steps (thorough: until the 8-bit counters end), at every step both directions of a hat and of a stick are deflected and returned and compared with the transposition rule and with a real key on the same base note"
    if prop == "C05":
        cov["explanation"] += "; plus corner configurations (default channel, velocity, key/axis offsets, CC numbers at and beyond their limits): the real parser decides, every accepted configuration is driven with all keys, panic on every channel and every raw value of every 8-bit axis"
    return vlib.finish(prop, tier, "model_checking", m, cov, assume, t0)


for _pid, _what in {
    "C01": "BFS to a fixpoint over the real Device x receiver monitor: at every state with nothing held the receiver's sounding set must be empty; every state is additionally disconnected (real ProcessEvents, close of the stream) and must end with nothing sounding",
    "C02": "BFS to a fixpoint x pairing monitor: every NoteOff of a release carries the (channel,pitch) of that key's press; action steps emit nothing",
    "C03": "BFS to a fixpoint x collision monitor: per-step message list equals the list prescribed by the mode for the monitor's own holder count",
    "C04": "BFS to a fixpoint over all action press/release orders x arithmetic monitor (Device.State() and NoteOn pitch/channel/velocity against an unbounded-int reference)",
    "C05": "well-formedness monitor on every transition of the key, panic, CC and key-emulation state graphs",
    "C13": "BFS to a fixpoint x panic monitor: burst content + differential against a shadow device that never sees the panic key",
    "C14": "BFS to a fixpoint x exit-sequence monitor: signal iff the press completes the sequence; that press is swallowed",
    "C07": "BFS to a fixpoint over axis position sequences x CC receiver monitor",
    "C08": "BFS to a fixpoint over axis position sequences x key-emulation reference automaton",
}.items():
    def _mk(what):
        return lambda prop, tier, t0: enga_check(prop, tier, t0, what)
    REGISTRY[_pid] = _mk(_what)


@check("C06")
def c06(prop, tier, t0):
    m = grid_run("c06", tier)
    # the same rest-value oracle when the output is read slowly (Engine B: instrumented device, output capacity 1, all schedules
    # up to the preemption bound): the pitch-bend axis ends at rest => the receiver ends at 8192
    sm, scov = engb_run(prop, tier, "c16", 2 if tier == "quick" else 3, budget="45s" if tier == "quick" else "600s", select=lambda n: "pitch-bend axis through a slow output" in n)
    m["violations"].extend(sm["violations"])
    m["exhaustive"] = m["exhaustive"] and sm["exhaustive"]
    # state part: the same axes with different deadzones in three mappings, mapping up/down incl. pair reset (Engine A)
    bm, bcov = enga_run(prop, tier)
    m["violations"].extend(bm["violations"])
    m["exhaustive"] = m["exhaustive"] and bm["exhaustive"]
    cov = generic_cov(m, "fresh real device per configuration variant {signed 8-bit, unsigned 8-bit, hat, signed 16-bit} x deadzone source {per-axis table, per-handler default} x deadzone x flip x deadzone_at_center x {CC, bidirectional CC, pitch bend}; "
                         "8-bit axes: EVERY ordered pair (previous raw, new raw); 16-bit: edge neighbourhoods + every 257th value after 5 previous values; compared at the receiver with an exact-rational reference "
                         "(within one step, monotonic, end stops exact, rest value exact); plus end stops/centre for every deadzone 0.00..0.99. distinct_nontrivial = configuration variants driven.")
    cov["bfs_states"], cov["bfs_transitions"], cov["bfs_traces_validated_against_impl"] = bcov["states"], bcov["transitions"], bcov["traces_validated_against_impl"]
    cov["slow_output_executions"] = scov["executions"]
    cov["rule"] += " Plus (Engine B) the pitch-bend axis swung end to end and back to rest through an output of capacity 1 with a consumer of arbitrary speed: every schedule up to the preemption bound ends with 8192 at the receiver."
    cov["rule"] += " Plus an explicit-state search (Engine A) over axis positions x mapping up/down (three mappings giving the same axes different deadzones / flip, incl. the pair reset): after every transmitted step the receiver value must match the CURRENT mapping's transfer function."
    return vlib.finish(prop, tier, "exploration", m, cov, [
        "axes whose AbsInfo has max <= 0 or min > max are outside 'within the axis' reported range'",
        "the global default deadzone (sub-handler \"\" fallback) is unreachable through the parser (it always records a per-handler default) and is not enumerated",
        "an observable for which nothing was ever transmitted is not judged",
    ], t0)


# ------------------------------------------------------------------ C09
import re as _re
import shutil as _shutil
import subprocess as _sp


def _norm(msg):
    return _re.sub(r"[0-9]+", "N", msg)[:90]


@check("C09")
def c09(prop, tier, t0):
    binary, bt = vlib.build("c09")
    hook, _ = vlib.build("hidi", pkgpath="./cmd/hidi", out=os.path.join(vlib.BUILD, "bin", "hidi_hook"))
    m = vlib.merge(sharded(binary, tier, vlib.NCPU, extra=["-repo", vlib.REPO]))
    # hidi.toml through the real LoadHIDIConfig (package main of cmd/hidi, reached through the verif init hook)
    d = tempfile.mkdtemp(prefix="c09_", dir=vlib.BUILD)
    try:
        files = os.path.join(d, "files")
        os.makedirs(files)
        vlib.run([binary, "-emit-hidi", files, "-repo", vlib.REPO])
        names = open(os.path.join(d, "names.txt")).read().split("\n")
        env = vlib.goenv()
        env["HIDI_VERIF"] = "loadhidi:" + files
        p = _sp.run([hook], env=env, capture_output=True, text=True, timeout=1800, cwd=d)
        if p.returncode != 0:
            raise vlib.Infra("hidi hook failed: %s %s" % (p.stdout[-2000:], p.stderr[-2000:]))
        seen = 0
        outcomes = set()
        for line in p.stdout.splitlines():
            parts = line.split("\t", 2)
            if len(parts) < 2 or not parts[0].isdigit():
                continue
            seen += 1
            idx = int(parts[0])
            name = names[idx] if idx < len(names) else parts[0]
            msg = parts[2] if len(parts) > 2 else ""
            outcomes.add(parts[1] + ":" + _norm(msg) if parts[1] != "OK" else "OK:" + msg)
            if parts[1] == "PANIC":
                content = open(os.path.join(files, parts[0]), "rb").read().decode("latin1")
                m["violations"].append({"class": "loadhidi-panics", "where": _norm(msg),
                                        "what": "LoadHIDIConfig panicked on %s: %s" % (name, msg),
                                        "detail": {"input_name": name, "content": content, "panic": msg}})
        if seen != len(names):
            raise vlib.Infra("hidi hook processed %d of %d inputs (it died?): %s" % (seen, len(names), p.stdout[-1500:] + p.stderr[-1500:]))
    finally:
        _shutil.rmtree(d, ignore_errors=True)
    m["distinct_keys"].update(outcomes)
    cov = generic_cov(m, "inputs: mutation closure of the 5 shipped device configurations and of a synthetic one using every analog type and optional field "
                         "(per line: delete / duplicate / truncate-before; per key=value and per inline-table field: 22 ill-typed literals incl. dates, times, arrays, tables; "
                         "dotted/quoted/unknown keys; every byte-prefix; all pairs of line deletions of the synthetic file), all token sequences of length <=5 (thorough 6) over a 16-token TOML alphabet, "
                         "all byte strings of length <=2 and length 3-4 over 12 bytes -> config.ParseData under recover + 30 s watchdog; every content of <=2 bytes and a fixed 1-in-61 stride of the enumeration additionally written to a *.toml file of a complete configuration tree and read through the real LoadDeviceConfigs (differential oracle: returns, no panic, no load error, holds a configuration exactly when ParseData accepts the content); the same closure of hidi.toml + a 5-field presence/value matrix -> "
                         "the real LoadHIDIConfig. distinct_nontrivial = distinct outcomes (accepted input / normalised error message / panic message).",
                      {"hidi_toml_inputs": len(names), "build_s": round(bt, 1)})
    cov["evaluations"] += len(names)
    # collapse duplicates of one panic kind for reporting
    return vlib.finish(prop, tier, "exploration", m, cov, [
        "'all byte strings up to 64 KiB' cannot be enumerated: the bound is the shapes listed in 'rule', one per parsing path visible in the code",
        "a hang is reported only after a single call stalls for 30 s",
    ], t0)


@check("C10")
def c10(prop, tier, t0):
    binary, bt = vlib.build("c10")
    m = vlib.merge(sharded(binary, tier, vlib.NCPU))
    cov = generic_cov(m, "a structured description (collision mode, exit sequence, identifier, defaults, action mapping, colours, 1-3 mappings x 1-2 sub-handlers, key entries by name/hex with notes by number/name and offsets absent/0/15, zero-padded decimal numbers, "
                         "every analog type with every optional field present/absent incl. offsets, flip, deadzone_at_center, deadzone sources) is expanded completely per section and pairwise across sections; each description is rendered "
                         "to TOML and, independently, to the expected configuration; the real ParseData result is compared fact by fact; every single-field invalidation (unknown field/key/note/action/type/mode, numbers in octal/hex/binary/underscore/exponent spelling, out-of-range note, "
                         "controller, offset, velocity, channel, missing default mapping) of a spread of bases (thorough: all) must be rejected. distinct_nontrivial = distinct accepted descriptions + distinct rejected invalidation kinds.",
                      {"build_s": round(bt, 1)})
    return vlib.finish(prop, tier, "exploration", m, cov, [
        "absence may be represented as nil or empty map; a missing default_deadzone as 0 or as no entry",
        "controller numbers 120-127 are not judged (rejecting them, as the parser does, or accepting them faithfully are both accepted)",
        "the same key given twice (by name and by hex code) is not generated (map iteration would decide the winner)",
        "offsets on type=action axes and channel_offset_negative on pitch_bend axes are not compared",
    ], t0)


@check("C12")
def c12(prop, tier, t0):
    binary, bt = vlib.build("c12")
    base = tempfile.mkdtemp(prefix="verif_c12_")
    d = tempfile.mkdtemp(prefix="vres_", dir=vlib.BUILD)
    try:
        jobs = []
        for i in range(vlib.NCPU):
            res = os.path.join(d, "r%d.json" % i)
            jobs.append(([binary, "-out", res, "-shard", str(i), "-nshards", str(vlib.NCPU), "-tier", tier, "-scratch", os.path.join(base, "s%d" % i)], res))
        m = vlib.merge(vlib.run_jobs(jobs))
    finally:
        _shutil.rmtree(base, ignore_errors=True)
        _shutil.rmtree(d, ignore_errors=True)
    cov = generic_cov(m, "generated hidi-config trees in a scratch directory: all 2^8 presence combinations of {user,factory} x {keyboard,gamepad} x {exact,default} files x identifier matching/not matching x junk sets "
                         "(broken TOML, valid TOML failing validation, date-typed value, .txt, name without dot, nested directories, upper-case broken), and every assignment of {present, missing, replaced by a file, dangling symlink} "
                         "to the four directories x presence masks; real LoadDeviceConfigs, then FindConfig for keyboard / joystick / mouse / unknown devices against a reference lookup chain. "
                         "evaluations = FindConfig calls + failed loads; distinct_nontrivial = distinct (device type, selected source) outcomes and load-error kinds.",
                      {"build_s": round(bt, 1)})
    return vlib.finish(prop, tier, "exploration", m, cov, [
        "checks run as root: permission-denied directories cannot be simulated",
        "two files with the same identifier in one directory are not generated (the later file in walk order wins)",
        "a missing/unusable directory may be answered with an error from LoadDeviceConfigs or be counted as empty",
    ], t0)


@check("C20")
def c20(prop, tier, t0):
    binary, bt = vlib.build("c20")
    m = vlib.merge(sharded(binary, tier, vlib.NCPU))
    cov = generic_cov(m, "all multisets of <=4 handlers over 9 capability classes (one per branch of HandlerType) x 3 physical locations (incl. the empty one), each in EVERY permutation of the discovery slice, through the real input.Normalize "
                         "(handlers cannot be opened); result canonicalised (devices sorted by location, members as sets) and compared with: partition of the input, same device iff same location, type = joystick if any member is "
                         "joystick-like else keyboard if any is a standard keyboard else not playable, identical for all permutations (ID compared when all members of a location share it). evaluations = Normalize calls; "
                         "distinct_nontrivial = distinct expected groupings.", {"build_s": round(bt, 1)})
    # schedules: discovery groups a batch while running devices classify their own handlers (Engine B)
    sm, scov = engb_run(prop, tier, "c20s", 2 if tier == "quick" else 3, select=lambda n: n.startswith("discovery:"))
    m["violations"].extend(sm["violations"])
    m["exhaustive"] = m["exhaustive"] and sm["exhaustive"]
    cov["concurrent_classification_executions"] = scov["executions"]
    cov["rule"] += (" Plus (Engine B, instrumented info.go/device.go under the controlled scheduler) Normalize on a batch while 1-2 other threads call HandlerType on handlers of other classes: every schedule up to the "
                    "preemption bound, every result equal to the sequential one, no happens-before race on package-level state of the package.")
    return vlib.finish(prop, tier, "exploration", m, cov, [
        "which capability set counts as joystick-like / standard keyboard is taken from the code's own HandlerType; the check is about grouping, aggregation and order independence",
        "Device.ID is compared across orders only when all handlers of a location report the same InputID (thorough also runs with per-handler IDs, ID then not compared)",
        "iteration order of the grouping map only affects the order of the returned slice, which the canonical form sorts away; Go randomises it per call, it is not enumerated",
        "more than 4 handlers per discovery batch are not enumerated",
    ], t0)


@check("C18")
def c18(prop, tier, t0):
    import c18 as _c18
    return _c18.run(prop, tier, t0)


# ------------------------------------------------------------------ Engine B (controlled scheduler)
ENGB = {}  # harness -> build parameters (also used by setup.sh to pre-build)


def engb_build(harness):
    p = ENGB[harness]
    rep = vlib.instrument(harness, p["files"], sysroot=p.get("sysroot", False), mapall=p.get("mapall", ()), access=p.get("access", ()))
    ov = vlib.make_overlay(harness, extra=rep, fakes=p.get("fakes", ()))
    return vlib.build(harness, tag=harness, overlay=ov)


def engb_run(prop, tier, harness, bound, extra_args=(), budget="40s", shards=None, select=None):
    t_i = __import__("time").time()
    binary, bt = engb_build(harness)
    # engine self-test (channel-model conformance + known answers) is part of every Engine-B check
    st, _ = vlib.build("vschedtest")
    d = tempfile.mkdtemp(prefix="vres_", dir=vlib.BUILD)
    try:
        sres = os.path.join(d, "selftest.json")
        p = vlib.run([st, "-out", sres, "-len", "5" if tier == "quick" else "6"], check=False)
        if p.returncode != 0:
            raise vlib.Infra("vsched self-test failed: " + p.stdout[-2000:])
        import json as _json
        selftest = _json.load(open(sres))["counters"]
    finally:
        _shutil.rmtree(d, ignore_errors=True)
    t_b = __import__("time").time()
    # one process per (scenario, shard): state-fingerprint pruning works best unsharded, so few shards per scenario
    names = [l.split(" ", 1) for l in vlib.run([binary, "-tier", tier, "-list"]).stdout.strip().splitlines() if l.strip()]
    if select is not None:
        names = [n for n in names if select(n[1] if len(n) > 1 else "")]
    k = shards or max(1, min(4, vlib.NCPU // max(1, len(names))))
    d = tempfile.mkdtemp(prefix="vres_", dir=vlib.BUILD)
    jobs = []
    for idx, _n in names:
        for sh in range(k):
            res = os.path.join(d, "r%s_%d.json" % (idx, sh))
            jobs.append(([binary, "-out", res, "-tier", tier, "-scenario", idx, "-shard", str(sh), "-nshards", str(k), "-bound", str(bound), "-budget", budget] + list(extra_args), res))
    try:
        m = vlib.merge(vlib.run_jobs(jobs, timeout=7200))
    finally:
        _shutil.rmtree(d, ignore_errors=True)
    c = m["counters"]
    cov = {
        "states": int(c.get("states", 0)), "transitions": int(c.get("transitions", 0)),
        "traces_validated_against_impl": int(c.get("executions", 0)),
        "executions": int(c.get("executions", 0)), "scenarios": len(names), "shards_per_scenario": k,
        "preemption_bound": bound, "distinct_terminal_observations": len(m["distinct_keys"]),
        "schedule_replay_checks": int(c.get("replay_checks", 0)),
        "channel_model_conformance_sequences": int(selftest.get("conformance_sequences", 0)),
        "engine_known_answer_executions": int(selftest.get("known_answer_executions", 0)),
        "instrument_and_build_s": round(t_b - t_i, 1),
    }
    for k, v in c.items():
        if k not in cov and not k.startswith("violations:") and k not in ("evaluations", "replay_checks"):
            cov[k] = int(v)
    return m, cov


ENGB_ASSUME = [
    "interleavings are explored at the granularity of synchronisation operations (channel send/receive/select/close, mutex lock, wait-group wait, cancel, sleep/timer, goroutine start) with sequentially consistent memory; Unlock/Done/Add/go are not separate scheduling points (they commute with everything except the operation they enable)",
    "all schedules with at most the stated number of preemptions are enumerated (each execution runs to completion); schedules needing more preemptions are outside the bound",
    "channels are modelled inside the scheduler; the model is validated against native Go channels for every operation sequence up to length 5/6 on capacities 0-2 in the same run",
    "the code under test is the CURRENT working tree, rewritten by /verif/tools/instr (type-directed source-to-source); 'traces_validated_against_impl' counts executions because every explored schedule IS an execution of the real (instrumented) code",
]


ENGB["c15"] = dict(files=["internal/pkg/utils/fan.go", "internal/pkg/midi/process.go"])
_PUREFILES = ["internal/pkg/input/info.go", "internal/pkg/input/device.go", "internal/pkg/midi/device/config/event.go"]
ENGB["c20s"] = dict(files=_PUREFILES, access=_PUREFILES)
ENGB["c19"] = dict(files=["internal/pkg/midi/device/config/monitor.go"], fakes=("fsnotify",))
_DEVFILES = ["internal/pkg/midi/device/events.go", "internal/pkg/midi/device/device.go", "internal/pkg/midi/device/open_rgb.go"]
ENGB["c16"] = dict(files=_DEVFILES, access=_DEVFILES, sysroot=True, fakes=("openrgb",))
ENGB["c17"] = dict(files=_DEVFILES, sysroot=True, fakes=("openrgb",))


@check("C15")
def c15(prop, tier, t0):
    bound = 2 if tier == "quick" else 3
    m, cov = engb_run(prop, tier, "c15", bound, budget="40s" if tier == "quick" else "600s")
    cov["explanation"] = ("real DynamicFanOut + ProcessMidiEvents under the controlled scheduler: R-out (2-3 emitters -> relay -> port), R-in/F (port -> relay -> fan-out -> always-attached device B and device A "
                          "attached/detached at arbitrary moments), F-stalled (A never reads), F-churn (two attachments), F-ids (every history of attach/detach operations up to a depth, a message after each operation: operation choices only on the default schedule, and a shorter depth with all non-preemptive interleavings); channel capacities 0/1/2; oracle on the totally ordered observation trace")
    return vlib.finish(prop, tier, "model_checking", m, cov, ENGB_ASSUME + [
        "channel capacities 0-2 instead of 8 so that blocking states are reachable within the bound; 2-4 messages, 2-3 emitters, one device attached/detached once or twice; F-ids: up to 3 (thorough 4) devices attached, histories of 6 (8) operations",
        "relay shutdown (context cancellation) is applied only after quiescence",
    ], t0)


@check("C19")
def c19(prop, tier, t0):
    bound = 2 if tier == "quick" else 3
    m, cov = engb_run(prop, tier, "c19", bound, budget="45s" if tier == "quick" else "2400s", shards=vlib.NCPU)
    # conformance of the fake's event alphabet with the real fsnotify library + inotify, and an end-to-end run of the
    # real (uninstrumented) DetectDeviceConfigChanges
    conf, _ = vlib.build("c19conf")
    base = tempfile.mkdtemp(prefix="verif_c19_")
    d = tempfile.mkdtemp(prefix="vres_", dir=vlib.BUILD)
    try:
        res = os.path.join(d, "conf.json")
        r = vlib.run_jobs([([conf, "-out", res, "-scratch", base], res)], timeout=900)[0]
    finally:
        _shutil.rmtree(base, ignore_errors=True)
        _shutil.rmtree(d, ignore_errors=True)
    m["violations"].extend(r.get("violations") or [])
    for k2, v in (r.get("counters") or {}).items():
        if not k2.startswith("violations:"):
            cov["conformance_" + k2] = int(v)
    cov["explanation"] = ("real DetectDeviceConfigChanges (instrumented) against a fake fsnotify: every sequence of <=2 (thorough 3) events over 12 kinds backed by real files (writes to .toml / .TOML / other names incl. 'atoml' and 'toml', a .toml emptied in place, create, chmod, "
                          "remove, rename, kernel queue overflow) x prompt/late consumer x cancellation at an arbitrary moment, all interleavings up to the preemption bound; oracle: no notification without a preceding .toml write and never more than writes, "
                          "a notification follows the last .toml write, the stream closes and all watcher threads end after shutdown. Separately the fake's alphabet is checked against the real library and kernel.")
    return vlib.finish(prop, tier, "model_checking", m, cov, ENGB_ASSUME + [
        "the kernel's and fsnotify's own goroutine schedules are outside the scheduler; the real library is only exercised by the conformance pass (sentinel-delimited event lists per file operation, no timing oracle)",
        "consumers keep reading until the stream closes (a consumer that stops reading for good is outside the quantifier)",
    ], t0)


@check("C16")
def c16(prop, tier, t0):
    bound = 2 if tier == "quick" else 3
    m, cov = engb_run(prop, tier, "c16", bound, budget="100s" if tier == "quick" else "900s", select=lambda n: "axis through a slow output" not in n)
    cov["explanation"] = ("real device package (events.go, device.go, open_rgb.go instrumented incl. data-access annotations) + fake OpenRGB under the controlled scheduler: event feeder, MIDI-input feeder, output drainer, "
                          "ProcessEvents with its LED and MIDI-input goroutines; OpenRGB absent / connected (virtual time) / failing (up to 2, thorough 3, failing calls or the server gone for good, at every call: explicit environment choices), MIDI input nil / live, two devices on one output. Oracle per schedule: ProcessEvents returns after the stream "
                          "ends and nothing it started stays blocked, no happens-before race on any mutable Device field, last LED frame all red, each device's output equals its output when run alone.")
    return vlib.finish(prop, tier, "model_checking", m, cov, ENGB_ASSUME + [
        "race detection is a vector-clock happens-before check over annotated accesses to mutable Device fields, with edges only from the program's own synchronisation; exhaustive over the explored schedules",
        "timers and sleeps are virtual: each sleep/timer label may fire 'early' once (branching), afterwards only when nothing else can run; LED refresh iterations are therefore explored at arbitrary positions a bounded number of times",
        "a stalled OpenRGB server (blocking socket) and the Status()/State() readers of cmd/hidi/cli.go are not modelled; a failing server (error returns) is",
        "when only sleeping threads can run, the least recently run one is the default and another may overtake it only while its branching budget lasts (otherwise two polling loops unroll each other without end)",
    ], t0)


@check("C17")
def c17(prop, tier, t0):
    m, cov = engb_run(prop, tier, "c17", 0, shards=7 if tier == "quick" else vlib.NCPU)
    cov.pop("preemption_bound", None)
    cov["explanation"] = ("the real ProcessEvents with its real LED refresh loop (instrumented, virtual time, fake OpenRGB server) is walked, for 6 LED layouts (thorough: plus every rotation of the full layout and every layout with one LED missing), through every combination of mapping (3, one named Control) x channel "
                          "x octave x semitone x held-key sets x MIDI-input notes on the current / another channel incl. NoteOff, NoteOn velocity 0 and panic; after every step a frame computed strictly after the step "
                          "(two refresh iterations after an event barrier) is compared LED by LED with a reference colouring written from the statement; indicator keys must be a function of their value and distinguish values; "
                          "the last frame after disconnect must be all red. One deterministic schedule (the frame is a function of state), 'states' = global scheduler states passed, frames_checked = (state, layout) pairs judged.")
    return vlib.finish(prop, tier, "model_checking", m, cov, [
        "a frame is a pure function of (configuration, LED layout, device state): one schedule per layout suffices; interleavings of the LED loop with event processing are the subject of C16",
        "quick: channels {1,2,16}, octave -1..1; thorough: channels {1,2,3,9,15,16}, octave -2..2; semitone -1..1; 5 held-key sets; 3 mappings",
        "where several highlights apply to one LED any of them is accepted; LEDs of unmapped keys and unknown LED names are not judged; malformed controller descriptions (no LEDs, colours/LED count mismatch) are not generated",
        "the LED-name <-> key table is taken from the code (device.KeyToLedName)",
        "single-mapping configuration: the mapping_up key is judged against its look at the LAST of three mappings and the mapping_down key against its look at the FIRST one (each key shows whether its own direction leads anywhere); learned in a reference run with three mappings in the same process",
    ], t0)


# ------------------------------------------------------------------ replay of a recorded violation (no explorer)
def replay(prop, path):
    """Re-execute exactly the recorded case against the current working tree of /repo."""
    import json as _json
    rec = _json.load(open(path))
    det = rec.get("detail") or {}
    print("property %s, class %s\n  %s" % (prop, rec.get("class"), rec.get("what")))
    if prop in ("C01", "C02", "C03", "C04", "C05", "C07", "C08", "C13", "C14") and det.get("history") is not None:
        binary, _ = vlib.build("enga")
        for tier in ("quick", "thorough"):
            p = vlib.run([binary, "-prop", prop, "-tier", tier, "-replay", path], check=False)
            if "scenario not found" not in p.stdout:
                print(p.stdout)
                return 0 if p.returncode == 0 else 2
        print(p.stdout)
        return 2
    if det.get("replay") and det["replay"].split(" ", 1)[0] in ("c15", "c16", "c20s"):
        h = det["replay"].split(" ", 1)[0]
        binary, _ = engb_build(h)
        arg = det["replay"].split("-replay ", 1)[1]
        for tier in ("quick", "thorough"):
            p = vlib.run([binary, "-tier", tier, "-replay", arg], check=False)
            print(p.stdout[-6000:])
            return 0 if p.returncode == 0 else 2
    # enumerators / crash points / LED frames: the record itself is the complete case (input text, tree, layout + steps)
    print(_json.dumps(det, indent=1)[:6000])
    print("(re-run `./vcheck %s quick`: enumeration is deterministic, the same case is visited again)" % prop)
    return 0
