// Package openrgb: verification-only in-memory stand-in for github.com/realbucksavage/openrgb-go
// (mapped over the module-cache package with `go build -overlay`; C16 / C17). Same exported
// surface as HIDI uses; the harness decides whether a server exists, which controllers it
// reports, and receives every LED frame. It knows nothing about the scheduler.
package openrgb

import (
	"errors"
	"fmt"
)

type Color struct {
	Red   uint8
	Green uint8
	Blue  uint8
}

func (c Color) String() string { return fmt.Sprintf("#%02x%02x%02x", c.Red, c.Green, c.Blue) }

type LED struct {
	Name  string
	Value Color
}

type Mode struct{ Name string }
type Zone struct{ Name string }

type Device struct {
	Type        uint32
	Name        string
	Description string
	Version     string
	Serial      string
	Location    string
	ActiveMode  uint32
	LEDs        []LED
	Colors      []Color
	Modes       []Mode
	Zones       []Zone
}

// Server is what the harness provides.
type Server interface {
	ControllerCount() (int, error)
	Controller(i int) (Device, error)
	UpdateLEDs(i int, colors []Color) error
}

// VerifConnect is installed by the harness; nil or an error means "no OpenRGB server".
var VerifConnect func(host string, port int) (Server, error)

type Client struct{ srv Server }

func Connect(host string, port int) (*Client, error) {
	if VerifConnect == nil {
		return nil, errors.New("fake openrgb: connection refused")
	}
	s, err := VerifConnect(host, port)
	if err != nil {
		return nil, err
	}
	return &Client{srv: s}, nil
}

func (c *Client) Close() error                              { return nil }
func (c *Client) GetControllerCount() (int, error)          { return c.srv.ControllerCount() }
func (c *Client) GetDeviceController(i int) (Device, error) { return c.srv.Controller(i) }
func (c *Client) UpdateLEDs(i int, colors []Color) error {
	cp := append([]Color{}, colors...)
	return c.srv.UpdateLEDs(i, cp)
}
func (c *Client) UpdateZoneLEDs(i, z int, colors []Color) error { return nil }
