//go:build verif

package vsched

import (
	"fmt"
	"unsafe"
)

// Happens-before race detector on annotated accesses (T9). Vector clocks advance at the
// program's own synchronisation only (unlock->lock, send->recv, close->recv, Go->start,
// Done->Wait, cancel->observed), never at scheduler hand-offs.

var raceOn bool

func ensure(vc []int, n int) []int {
	for len(vc) <= n {
		vc = append(vc, 0)
	}
	return vc
}

func tick(t *thread) {
	if t == nil {
		return
	}
	t.vc = ensure(t.vc, t.id)
	t.vc[t.id]++
}

// release returns a snapshot of t's clock and then advances t's own component.
func release(t *thread) []int {
	if t == nil {
		return nil
	}
	t.vc = ensure(t.vc, t.id)
	c := append([]int{}, t.vc...)
	t.vc[t.id]++
	return c
}

func maxVC(a, b []int) []int {
	if len(b) > len(a) {
		a = ensure(a, len(b)-1)
	}
	for i := range b {
		if b[i] > a[i] {
			a[i] = b[i]
		}
	}
	return a
}

func joinVC(t *thread, o []int) {
	if t == nil || o == nil {
		return
	}
	t.vc = maxVC(t.vc, o)
}

type accessRec struct {
	wT, wC int
	wPos   string
	reads  map[int][2]interface{} // thread -> {clock, pos}
}

type accessKey struct {
	p uintptr
	f string
}

func key(obj interface{}, field string) accessKey {
	// the data word of the interface value: the pointer itself for pointer-shaped dynamic types
	return accessKey{(*[2]uintptr)(unsafe.Pointer(&obj))[1], field}
}

// R annotates a read of (obj, field) by the current thread.
func R(obj interface{}, field string) {
	if !raceOn || s == nil || s.aborting || s.cur == nil {
		return
	}
	t := s.cur
	k := key(obj, field)
	a := s.accesses[k]
	if a == nil {
		a = &accessRec{wT: -1, reads: map[int][2]interface{}{}}
		s.accesses[k] = a
	}
	pos := caller()
	if a.wT >= 0 && a.wT != t.id && !stampBefore(t, a.wT, a.wC) {
		report(field, "write", a.wPos, s.threads[a.wT].label, "read", pos, t.label)
	}
	t.vc = ensure(t.vc, t.id)
	a.reads[t.id] = [2]interface{}{t.vc[t.id], pos}
}

// W annotates a write.
func W(obj interface{}, field string) {
	if !raceOn || s == nil || s.aborting || s.cur == nil {
		return
	}
	t := s.cur
	k := key(obj, field)
	a := s.accesses[k]
	if a == nil {
		a = &accessRec{wT: -1, reads: map[int][2]interface{}{}}
		s.accesses[k] = a
	}
	pos := caller()
	if a.wT >= 0 && a.wT != t.id && !stampBefore(t, a.wT, a.wC) {
		report(field, "write", a.wPos, s.threads[a.wT].label, "write", pos, t.label)
	}
	for u, rc := range a.reads {
		if u != t.id && !stampBefore(t, u, rc[0].(int)) {
			report(field, "read", rc[1].(string), s.threads[u].label, "write", pos, t.label)
		}
	}
	t.vc = ensure(t.vc, t.id)
	a.wT, a.wC, a.wPos = t.id, t.vc[t.id], pos
	a.reads = map[int][2]interface{}{}
}

// stampBefore: an access by thread u stamped with u's own component value c happens-before t's
// current point iff t has joined a release snapshot of u whose component u is >= c... but a snapshot
// with component == c may have been taken BEFORE the access (accesses after the previous release
// carry the value the release advanced to). release() snapshots first and advances afterwards, so a
// snapshot taken after the access has component >= c, and one taken before it has component < c
// only if the access came after an advance: accesses are stamped with the ADVANCED value, snapshots
// with the value before advancing, hence "snapshot component >= c" <=> snapshot taken after the access.
func stampBefore(t *thread, u, c int) bool {
	t.vc = ensure(t.vc, u)
	return t.vc[u] >= c
}

func report(field, k1, p1, t1, k2, p2, t2 string) {
	msg := fmt.Sprintf("unsynchronised %s of %s at %s [%s] and %s at %s [%s]", k1, field, p1, t1, k2, p2, t2)
	for _, r := range s.races {
		if r == msg {
			return
		}
	}
	s.races = append(s.races, msg)
}
