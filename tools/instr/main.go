// instr: source-to-source instrumenter for Engine B (see /verif/DESIGN.md §2.3).
// Rewrites the synchronisation constructs of selected HIDI files into calls of the
// vsched runtime, type-directed (golang.org/x/tools/go/packages). It reads the CURRENT
// working tree and writes the rewritten copies to an output directory; the check then
// maps them over the originals with `go build -overlay`.
//
//	instr -repo /repo -out /verif/build/instr -files internal/pkg/utils/fan.go,... [-access device] [-sysroot]
//
// exit 2 (never a verdict) on a construct it does not know in those files.
package main

import (
	"bytes"
	"flag"
	"fmt"
	"go/ast"
	"go/format"
	"go/token"
	"go/types"
	"os"
	"path/filepath"
	"strings"

	"golang.org/x/tools/go/ast/astutil"
	"golang.org/x/tools/go/packages"
)

const vs = "vsched"
const vsPath = "github.com/gethiox/HIDI/internal/verif/vsched"

var fset *token.FileSet

func die(f string, a ...interface{}) {
	fmt.Fprintf(os.Stderr, "instr: "+f+"\n", a...)
	os.Exit(2)
}

func sel(pkg, name string) *ast.SelectorExpr {
	return &ast.SelectorExpr{X: ast.NewIdent(pkg), Sel: ast.NewIdent(name)}
}

func call(fun ast.Expr, args ...ast.Expr) *ast.CallExpr { return &ast.CallExpr{Fun: fun, Args: args} }

func method(recv ast.Expr, name string, args ...ast.Expr) *ast.CallExpr {
	return call(&ast.SelectorExpr{X: recv, Sel: ast.NewIdent(name)}, args...)
}

type rewriter struct {
	info      *types.Info
	pkg       *packages.Package
	file      *ast.File
	tmp       int
	access    bool // T9 annotations
	sysroot   bool
	labelPos  func(n ast.Node) string
	mapAll    bool
	commNodes map[ast.Node]bool
	mapRanges map[*ast.RangeStmt]bool
}

func (r *rewriter) fresh(p string) *ast.Ident {
	r.tmp++
	return ast.NewIdent(fmt.Sprintf("__vs_%s%d", p, r.tmp))
}

func (r *rewriter) isChan(e ast.Expr) bool {
	t := r.info.TypeOf(e)
	if t == nil {
		return false
	}
	_, ok := t.Underlying().(*types.Chan)
	if ok {
		return true
	}
	// type parameters with a channel core type do not occur in HIDI
	return false
}

func (r *rewriter) isMap(e ast.Expr) bool {
	t := r.info.TypeOf(e)
	if t == nil {
		return false
	}
	_, ok := t.Underlying().(*types.Map)
	return ok
}

func (r *rewriter) pkgIdent(e ast.Expr, path string) bool {
	id, ok := e.(*ast.Ident)
	if !ok {
		return false
	}
	if pn, ok := r.info.Uses[id].(*types.PkgName); ok {
		return pn.Imported().Path() == path
	}
	return false
}

func (r *rewriter) isBuiltin(e ast.Expr, name string) bool {
	id, ok := e.(*ast.Ident)
	if !ok || id.Name != name {
		return false
	}
	_, isB := r.info.Uses[id].(*types.Builtin)
	return isB
}

// containsSync: does the subtree contain a channel/mutex/go operation (decides T11 for map ranges)?
func (r *rewriter) containsSync(n ast.Node) bool {
	found := false
	ast.Inspect(n, func(x ast.Node) bool {
		switch v := x.(type) {
		case *ast.SendStmt, *ast.GoStmt, *ast.SelectStmt:
			found = true
		case *ast.UnaryExpr:
			if v.Op == token.ARROW {
				found = true
			}
		case *ast.CallExpr:
			if s, ok := v.Fun.(*ast.SelectorExpr); ok {
				switch s.Sel.Name {
				case "Lock", "Unlock", "Wait", "Done":
					found = true
				}
			}
			if r.isBuiltin(v.Fun, "close") {
				found = true
			}
		}
		return !found
	})
	return found
}

func (r *rewriter) selectStmt(c *astutil.Cursor, s *ast.SelectStmt) {
	// switch vsched.Select(hasDefault, k0, k1, ...) { case 0: ... }
	var pre []ast.Stmt
	var caseArgs []ast.Expr
	sw := &ast.SwitchStmt{Body: &ast.BlockStmt{}}
	hasDefault := false
	idx := 0
	for _, cl := range s.Body.List {
		cc := cl.(*ast.CommClause)
		if cc.Comm == nil {
			hasDefault = true
			sw.Body.List = append(sw.Body.List, &ast.CaseClause{List: []ast.Expr{&ast.UnaryExpr{Op: token.SUB, X: &ast.BasicLit{Kind: token.INT, Value: "1"}}}, Body: cc.Body})
			continue
		}
		k := r.fresh("k")
		var body []ast.Stmt
		switch comm := cc.Comm.(type) {
		case *ast.SendStmt:
			pre = append(pre, &ast.AssignStmt{Lhs: []ast.Expr{k}, Tok: token.DEFINE, Rhs: []ast.Expr{method(call(sel(vs, "Out"), comm.Chan), "Case", comm.Value)}})
		case *ast.ExprStmt: // <-ch
			u, ok := comm.X.(*ast.UnaryExpr)
			if !ok || u.Op != token.ARROW {
				die("%s: unsupported select case", r.labelPos(cc))
			}
			pre = append(pre, &ast.AssignStmt{Lhs: []ast.Expr{k}, Tok: token.DEFINE, Rhs: []ast.Expr{call(sel(vs, "CaseRecv"), u.X)}})
		case *ast.AssignStmt: // v := <-ch ; v, ok = <-ch
			u, ok := comm.Rhs[0].(*ast.UnaryExpr)
			if !ok || u.Op != token.ARROW || len(comm.Rhs) != 1 {
				die("%s: unsupported select case", r.labelPos(cc))
			}
			pre = append(pre, &ast.AssignStmt{Lhs: []ast.Expr{k}, Tok: token.DEFINE, Rhs: []ast.Expr{call(sel(vs, "CaseRecv"), u.X)}})
			m := "Value"
			if len(comm.Lhs) == 2 {
				m = "Value2"
			}
			body = append(body, &ast.AssignStmt{Lhs: comm.Lhs, Tok: comm.Tok, Rhs: []ast.Expr{method(k, m)}})
			if comm.Tok == token.DEFINE { // silence "declared and not used" exactly like the original would not need to
				for _, l := range comm.Lhs {
					if id, ok := l.(*ast.Ident); ok && id.Name != "_" {
						body = append(body, &ast.AssignStmt{Lhs: []ast.Expr{ast.NewIdent("_")}, Tok: token.ASSIGN, Rhs: []ast.Expr{ast.NewIdent(id.Name)}})
					}
				}
			}
		default:
			die("%s: unsupported select case", r.labelPos(cc))
		}
		caseArgs = append(caseArgs, k)
		body = append(body, cc.Body...)
		sw.Body.List = append(sw.Body.List, &ast.CaseClause{List: []ast.Expr{&ast.BasicLit{Kind: token.INT, Value: fmt.Sprint(idx)}}, Body: body})
		idx++
	}
	// a select whose clauses all terminate is a terminating statement (it may end a function that returns a value);
	// the switch is one only with a default clause - never taken: Select answers with a case index or -1
	sw.Body.List = append(sw.Body.List, &ast.CaseClause{Body: []ast.Stmt{&ast.ExprStmt{X: call(ast.NewIdent("panic"), &ast.BasicLit{Kind: token.STRING, Value: `"vsched.Select returned an unknown case"`})}}})
	def := "false"
	if hasDefault {
		def = "true"
	}
	sw.Tag = call(sel(vs, "Select"), append([]ast.Expr{ast.NewIdent(def)}, caseArgs...)...)
	if len(pre) == 0 {
		c.Replace(sw)
		return
	}
	// a labeled select (break L) keeps working: the label is on the parent LabeledStmt, whose Stmt we replace by a block;
	// `break L` out of a labeled block is not allowed, so wrap as: L: for once { pre; switch ... ; break }? HIDI only labels loops.
	if _, labeled := c.Parent().(*ast.LabeledStmt); labeled {
		die("%s: labeled select is not supported", r.labelPos(s))
	}
	c.Replace(&ast.BlockStmt{List: append(pre, sw)})
}

func (r *rewriter) rangeStmt(c *astutil.Cursor, rs *ast.RangeStmt) {
	switch {
	case r.isChan(rs.X):
		// for { v, ok := vsched.In(ch).Recv2(); if !ok { break }; body }
		var v ast.Expr
		tok := rs.Tok
		if id, isID := rs.Key.(*ast.Ident); rs.Key == nil || (isID && id.Name == "_") {
			v = r.fresh("v")
			tok = token.DEFINE
		} else {
			v = rs.Key
		}
		okID := r.fresh("ok")
		var list []ast.Stmt
		if tok == token.DEFINE {
			list = append(list, &ast.AssignStmt{Lhs: []ast.Expr{v, okID}, Tok: token.DEFINE, Rhs: []ast.Expr{method(call(sel(vs, "In"), rs.X), "Recv2")}})
			list = append(list, &ast.AssignStmt{Lhs: []ast.Expr{ast.NewIdent("_")}, Tok: token.ASSIGN, Rhs: []ast.Expr{v}})
		} else {
			list = append(list, &ast.DeclStmt{Decl: &ast.GenDecl{Tok: token.VAR, Specs: []ast.Spec{&ast.ValueSpec{Names: []*ast.Ident{okID}, Type: ast.NewIdent("bool")}}}})
			list = append(list, &ast.AssignStmt{Lhs: []ast.Expr{v, okID}, Tok: token.ASSIGN, Rhs: []ast.Expr{method(call(sel(vs, "In"), rs.X), "Recv2")}})
		}
		list = append(list, &ast.IfStmt{Cond: &ast.UnaryExpr{Op: token.NOT, X: okID}, Body: &ast.BlockStmt{List: []ast.Stmt{&ast.BranchStmt{Tok: token.BREAK}}}})
		list = append(list, rs.Body.List...)
		loop := &ast.ForStmt{Body: &ast.BlockStmt{List: list}}
		if _, isCall := rs.X.(*ast.CallExpr); isCall { // the range expression is evaluated once
			if _, labeled := c.Parent().(*ast.LabeledStmt); labeled {
				die("%s: labeled range over a channel-valued call is not supported", r.labelPos(rs))
			}
			chID := r.fresh("ch")
			recv := list[0]
			if tok != token.DEFINE {
				recv = list[1]
			}
			recv.(*ast.AssignStmt).Rhs[0] = method(call(sel(vs, "In"), chID), "Recv2")
			c.Replace(&ast.BlockStmt{List: []ast.Stmt{&ast.AssignStmt{Lhs: []ast.Expr{chID}, Tok: token.DEFINE, Rhs: []ast.Expr{rs.X}}, loop}})
		} else {
			c.Replace(loop)
		}
	case r.mapRanges[rs]:
		// for _, k := range vsched.MapKeys(m) { v, ok := m[k]; if !ok { continue }; body }
		mID := r.fresh("m")
		kID := r.fresh("key")
		okID := r.fresh("ok")
		var inner []ast.Stmt
		keyLhs := ast.Expr(ast.NewIdent("_"))
		if rs.Key != nil {
			keyLhs = rs.Key
		}
		valLhs := ast.Expr(ast.NewIdent("_"))
		if rs.Value != nil {
			valLhs = rs.Value
		}
		idx := &ast.IndexExpr{X: mID, Index: kID}
		tmpV := r.fresh("val")
		inner = append(inner, &ast.AssignStmt{Lhs: []ast.Expr{tmpV, okID}, Tok: token.DEFINE, Rhs: []ast.Expr{idx}})
		inner = append(inner, &ast.IfStmt{Cond: &ast.UnaryExpr{Op: token.NOT, X: okID}, Body: &ast.BlockStmt{List: []ast.Stmt{&ast.BranchStmt{Tok: token.CONTINUE}}}})
		tok := rs.Tok
		if tok == token.ILLEGAL {
			tok = token.DEFINE
		}
		if id, ok := keyLhs.(*ast.Ident); !ok || id.Name != "_" {
			inner = append(inner, &ast.AssignStmt{Lhs: []ast.Expr{keyLhs}, Tok: tok, Rhs: []ast.Expr{kID}})
			if tok == token.DEFINE {
				inner = append(inner, &ast.AssignStmt{Lhs: []ast.Expr{ast.NewIdent("_")}, Tok: token.ASSIGN, Rhs: []ast.Expr{keyLhs}})
			}
		}
		if id, ok := valLhs.(*ast.Ident); !ok || id.Name != "_" {
			inner = append(inner, &ast.AssignStmt{Lhs: []ast.Expr{valLhs}, Tok: tok, Rhs: []ast.Expr{tmpV}})
			if tok == token.DEFINE {
				inner = append(inner, &ast.AssignStmt{Lhs: []ast.Expr{ast.NewIdent("_")}, Tok: token.ASSIGN, Rhs: []ast.Expr{valLhs}})
			}
		} else {
			inner = append(inner, &ast.AssignStmt{Lhs: []ast.Expr{ast.NewIdent("_")}, Tok: token.ASSIGN, Rhs: []ast.Expr{tmpV}})
		}
		inner = append(inner, rs.Body.List...)
		loop := &ast.RangeStmt{Key: ast.NewIdent("_"), Value: kID, Tok: token.DEFINE, X: call(sel(vs, "MapKeys"), mID), Body: &ast.BlockStmt{List: inner}}
		blk := &ast.BlockStmt{List: []ast.Stmt{&ast.AssignStmt{Lhs: []ast.Expr{mID}, Tok: token.DEFINE, Rhs: []ast.Expr{rs.X}}, loop}}
		if _, labeled := c.Parent().(*ast.LabeledStmt); labeled {
			die("%s: labeled map range with synchronisation inside is not supported", r.labelPos(rs))
		}
		c.Replace(blk)
	}
}

func (r *rewriter) post(c *astutil.Cursor) bool {
	switch n := c.Node().(type) {
	case *ast.GoStmt:
		var pre []ast.Stmt
		for i, a := range n.Call.Args {
			t := r.fresh("a")
			pre = append(pre, &ast.AssignStmt{Lhs: []ast.Expr{t}, Tok: token.DEFINE, Rhs: []ast.Expr{a}})
			n.Call.Args[i] = t
		}
		label := exprString(n.Call.Fun)
		if len(label) > 40 {
			label = "func"
		}
		body := &ast.FuncLit{Type: &ast.FuncType{Params: &ast.FieldList{}}, Body: &ast.BlockStmt{List: []ast.Stmt{&ast.ExprStmt{X: n.Call}}}}
		st := &ast.ExprStmt{X: call(sel(vs, "Go"), &ast.BasicLit{Kind: token.STRING, Value: fmt.Sprintf("%q", label)}, body)}
		if len(pre) == 0 {
			c.Replace(st)
		} else {
			c.Replace(&ast.BlockStmt{List: append(pre, st)})
		}
	case *ast.SendStmt:
		if r.commNodes[n] { // the communication of a select clause itself (handled by selectStmt), not a statement of its body
			return true
		}
		c.Replace(&ast.ExprStmt{X: method(call(sel(vs, "Out"), n.Chan), "Send", n.Value)})
	case *ast.SelectStmt:
		r.selectStmt(c, n)
	case *ast.RangeStmt:
		r.rangeStmt(c, n)
	case *ast.AssignStmt:
		if _, inSelect := c.Parent().(*ast.CommClause); inSelect {
			return true
		}
		if len(n.Rhs) == 1 && len(n.Lhs) == 2 {
			if u, ok := n.Rhs[0].(*ast.UnaryExpr); ok && u.Op == token.ARROW {
				n.Rhs[0] = method(call(sel(vs, "In"), u.X), "Recv2")
			}
		}
	case *ast.UnaryExpr:
		if n.Op == token.ARROW {
			// receive expressions that are the comm of a select clause are handled by selectStmt
			if r.commNodes[n] {
				return true
			}
			m := "Recv"
			switch p := c.Parent().(type) {
			case *ast.AssignStmt:
				if len(p.Lhs) == 2 && len(p.Rhs) == 1 {
					m = "Recv2"
				}
			case *ast.ValueSpec:
				if len(p.Names) == 2 && len(p.Values) == 1 {
					m = "Recv2"
				}
			}
			c.Replace(method(call(sel(vs, "In"), n.X), m))
		}
	case *ast.CallExpr:
		if r.isBuiltin(n.Fun, "close") {
			n.Fun = sel(vs, "Close")
		}
	case *ast.SelectorExpr:
		switch {
		case r.pkgIdent(n.X, "sync"):
			switch n.Sel.Name {
			case "Mutex", "WaitGroup", "RWMutex", "Once":
				c.Replace(sel(vs, n.Sel.Name))
			case "Locker":
			default:
				die("%s: sync.%s is not supported by the scheduler", r.labelPos(n), n.Sel.Name)
			}
		case r.pkgIdent(n.X, "sync/atomic"):
			name := n.Sel.Name
			switch {
			case name == "Int32" || name == "Int64" || name == "Uint32" || name == "Uint64" || name == "Uintptr" || name == "Bool" || name == "Value" || name == "Pointer":
				c.Replace(sel(vs, "Atomic"+name))
			case strings.HasSuffix(name, "Pointer"):
				die("%s: atomic.%s (unsafe.Pointer) is not supported by the scheduler", r.labelPos(n), name)
			case strings.HasPrefix(name, "CompareAndSwap"):
				c.Replace(sel(vs, "AtomicCAS"))
			case strings.HasPrefix(name, "Add"), strings.HasPrefix(name, "Load"), strings.HasPrefix(name, "Store"), strings.HasPrefix(name, "Swap"):
				for _, op := range []string{"Add", "Load", "Store", "Swap"} {
					if strings.HasPrefix(name, op) {
						c.Replace(sel(vs, "Atomic"+op))
					}
				}
			default:
				die("%s: atomic.%s is not supported by the scheduler", r.labelPos(n), name)
			}
		case r.pkgIdent(n.X, "context"):
			switch n.Sel.Name {
			case "WithCancel", "Background", "WithTimeout", "WithDeadline":
				c.Replace(sel(vs, n.Sel.Name))
			case "TODO":
				c.Replace(sel(vs, "Background"))
			case "DeadlineExceeded":
			case "Context", "CancelFunc", "Canceled":
			default:
				die("%s: context.%s is not supported by the scheduler", r.labelPos(n), n.Sel.Name)
			}
		case r.pkgIdent(n.X, "time"):
			switch n.Sel.Name {
			case "After", "Sleep", "Now", "Since", "Until", "NewTimer", "NewTicker", "AfterFunc", "Tick", "Timer", "Ticker":
				c.Replace(sel(vs, n.Sel.Name))
			}
		}
	case *ast.BasicLit:
		if r.sysroot && n.Kind == token.STRING && strings.HasPrefix(n.Value, `"/sys/class/hidraw`) {
			c.Replace(&ast.BinaryExpr{X: sel(vs, "SysRoot"), Op: token.ADD, Y: &ast.BasicLit{Kind: token.STRING, Value: n.Value}})
		}
	}
	return true
}

// annotateAccesses: T9 (data-access annotations for the race detector) — see access.go
func exprString(e ast.Expr) string {
	var b bytes.Buffer
	format.Node(&b, token.NewFileSet(), e)
	s := b.String()
	if i := strings.IndexAny(s, "\n{"); i >= 0 {
		s = s[:i]
	}
	return strings.TrimSpace(s)
}

func main() {
	repo := flag.String("repo", "/repo", "")
	out := flag.String("out", "", "output directory")
	files := flag.String("files", "", "comma-separated repo-relative files")
	sysroot := flag.Bool("sysroot", false, "prefix /sys/class/hidraw literals with vsched.SysRoot")
	mapAllFiles := flag.String("mapall", "", "comma-separated files in which EVERY map range gets scheduler-chosen order")
	accessFiles := flag.String("access", "", "comma-separated files that get T9 data-access annotations")
	flag.Parse()
	if *out == "" || *files == "" {
		die("need -out and -files")
	}
	want := map[string]bool{}
	dirs := map[string]bool{}
	for _, f := range strings.Split(*files, ",") {
		abs := filepath.Join(*repo, f)
		want[abs] = true
		dirs["./"+filepath.Dir(f)] = true
	}
	mapAll := map[string]bool{}
	for _, f := range strings.Split(*mapAllFiles, ",") {
		if f != "" {
			mapAll[filepath.Join(*repo, f)] = true
		}
	}
	access := map[string]bool{}
	for _, f := range strings.Split(*accessFiles, ",") {
		if f != "" {
			access[filepath.Join(*repo, f)] = true
		}
	}
	var pats []string
	for d := range dirs {
		pats = append(pats, d)
	}
	fset = token.NewFileSet()
	cfg := &packages.Config{Mode: packages.NeedName | packages.NeedFiles | packages.NeedCompiledGoFiles | packages.NeedSyntax | packages.NeedTypes | packages.NeedTypesInfo | packages.NeedImports | packages.NeedDeps,
		Dir: *repo, Fset: fset, Env: append(os.Environ(), "GOFLAGS=-mod=mod", "GOPROXY=off", "GOSUMDB=off", "GOTOOLCHAIN=local", "CGO_ENABLED=0")}
	pkgs, err := packages.Load(cfg, pats...)
	if err != nil {
		die("load: %v", err)
	}
	done := 0
	for _, p := range pkgs {
		if len(p.Errors) > 0 {
			die("package %s has errors: %v", p.PkgPath, p.Errors)
		}
		for i, f := range p.Syntax {
			name := p.CompiledGoFiles[i]
			if !want[name] {
				continue
			}
			r := &rewriter{info: p.TypesInfo, pkg: p, file: f, sysroot: *sysroot, mapAll: mapAll[name], access: access[name], commNodes: map[ast.Node]bool{}, mapRanges: map[*ast.RangeStmt]bool{}}
			r.labelPos = func(n ast.Node) string { return fset.Position(n.Pos()).String() }
			// record receive expressions that are the comm of a select clause
			ast.Inspect(f, func(n ast.Node) bool {
				if cc, ok := n.(*ast.CommClause); ok && cc.Comm != nil {
					r.commNodes[cc.Comm] = true
					switch s := cc.Comm.(type) {
					case *ast.ExprStmt:
						r.commNodes[s.X] = true
					case *ast.AssignStmt:
						for _, e := range s.Rhs {
							r.commNodes[e] = true
						}
					}
				}
				return true
			})
			ast.Inspect(f, func(n ast.Node) bool {
				if rs, ok := n.(*ast.RangeStmt); ok && r.isMap(rs.X) && (r.mapAll || r.containsSync(rs.Body)) {
					r.mapRanges[rs] = true
				}
				return true
			})
			if r.access {
				r.annotateAccesses(f)
			}
			astutil.Apply(f, nil, r.post)
			verifyNoNative(f, name)
			astutil.AddImport(fset, f, vsPath)
			// keep possibly orphaned imports used
			keep := []ast.Decl{dummy("vsched", "Options")} // a file without any rewritten construct still imports the scheduler
			for _, imp := range f.Imports {
				path := strings.Trim(imp.Path.Value, `"`)
				switch path {
				case "sync":
					keep = append(keep, dummy("sync", "Once"))
				case "time":
					keep = append(keep, dummy("time", "Duration"))
				case "context":
					keep = append(keep, dummy("context", "Context"))
				case "sync/atomic":
					keep = append(keep, dummy("atomic", "Int32"))
				}
			}
			f.Decls = append(f.Decls, keep...)
			var buf bytes.Buffer
			if err := format.Node(&buf, fset, f); err != nil {
				die("format %s: %v", name, err)
			}
			rel, _ := filepath.Rel(*repo, name)
			dst := filepath.Join(*out, rel)
			os.MkdirAll(filepath.Dir(dst), 0o755)
			src := "// Code generated by /verif/tools/instr from " + rel + "; DO NOT EDIT.\n" + buf.String()
			if err := os.WriteFile(dst, []byte(src), 0o644); err != nil {
				die("%v", err)
			}
			done++
		}
	}
	if done != len(want) {
		die("instrumented %d of %d requested files (a requested file is not part of its package's build?)", done, len(want))
	}
}

func dummy(pkg, typ string) ast.Decl {
	return &ast.GenDecl{Tok: token.VAR, Specs: []ast.Spec{&ast.ValueSpec{Names: []*ast.Ident{ast.NewIdent("_")}, Type: sel(pkg, typ)}}}
}

// verifyNoNative: after rewriting, no native synchronisation construct may remain in the file.
func verifyNoNative(f *ast.File, name string) {
	ast.Inspect(f, func(n ast.Node) bool {
		switch v := n.(type) {
		case *ast.SendStmt, *ast.GoStmt, *ast.SelectStmt:
			die("%s: a native %T survived the rewriting (instrumenter bug)", name, n)
		case *ast.UnaryExpr:
			if v.Op == token.ARROW {
				die("%s: a native channel receive survived the rewriting (instrumenter bug)", name)
			}
		}
		return true
	})
}
