//go:build verif

// C11: note names <-> numbers. Bounded-exhaustive enumeration of strings against
// a reference written from the property statement (not from the code).
package main

import (
	"flag"
	"fmt"
	"strconv"
	"strings"

	"github.com/gethiox/HIDI/internal/pkg/midi/device/config"
	"github.com/gethiox/HIDI/internal/verif/vutil"
)

var pitchVal = map[byte]int{'C': 0, 'D': 2, 'E': 4, 'F': 5, 'G': 7, 'A': 9, 'B': 11}

// ref: (accepted, value, dontCare). The octave is one of -2 -1 0 1 ... 8 written exactly so: "-0" is not a spelling of 0
// ("C-0" is none of the 128 names and must be rejected like every other string).
func ref(s string) (ok bool, val int, dontCare bool) {
	if len(s) < 2 {
		return false, 0, false
	}
	l := s[0]
	if l >= 'a' && l <= 'z' {
		l -= 32
	}
	pv, isLetter := pitchVal[l]
	if !isLetter {
		return false, 0, false
	}
	rest := s[1:]
	if rest[0] == '#' {
		if l == 'E' || l == 'B' {
			return false, 0, false
		}
		pv++
		rest = rest[1:]
	}
	var oct int
	switch {
	case len(rest) == 1 && rest[0] >= '0' && rest[0] <= '8':
		oct = int(rest[0] - '0')
	case rest == "-1":
		oct = -1
	case rest == "-2":
		oct = -2
	default:
		return false, 0, false
	}
	v := (oct+2)*12 + pv
	if v > 127 {
		return false, 0, false
	}
	return true, v, dontCare
}

func main() {
	out := flag.String("out", "", "result file")
	shard := flag.Int("shard", 0, "")
	nshards := flag.Int("nshards", 1, "")
	tier := flag.String("tier", "quick", "")
	flag.Parse()
	res := vutil.NewResult()

	check := func(s string) {
		res.Add("evaluations", 1)
		got, err := config.StringToNote(s)
		ok, want, dc := ref(s)
		switch {
		case err == nil && !ok:
			res.Violate("accepts-non-name", classOf(s), fmt.Sprintf("StringToNote(%q) = %d, want an error", s, got), map[string]interface{}{"input": s, "got": got})
		case err != nil && ok && !dc:
			res.Violate("rejects-valid-name", s, fmt.Sprintf("StringToNote(%q) = error %v, want %d", s, err, want), map[string]interface{}{"input": s, "want": want})
		case err == nil && ok && int(got) != want:
			res.Violate("wrong-number", s, fmt.Sprintf("StringToNote(%q) = %d, want %d", s, got, want), map[string]interface{}{"input": s, "got": got, "want": want})
		}
		if err == nil {
			res.Add("accepted", 1)
			res.Distinct(strings.ToUpper(s))
		}
		// the answer must not depend on earlier calls: ask again
		got2, err2 := config.StringToNote(s)
		if (err == nil) != (err2 == nil) || got != got2 {
			res.Violate("answer-changes-on-repetition", classOf(s), fmt.Sprintf("StringToNote(%q) returned (%d, %v) the first time and (%d, %v) the second time", s, got, err, got2, err2), map[string]interface{}{"input": s})
		}
	}

	// (1) numbers -> names -> numbers
	if *shard == 0 {
		seen := map[string]int{}
		for n := 0; n < 128; n++ {
			name := config.NoteToPitch(byte(n)) + strconv.Itoa(config.NoteToOctave(byte(n)))
			res.Add("evaluations", 1)
			if p, dup := seen[name]; dup {
				res.Violate("name-not-injective", name, fmt.Sprintf("numbers %d and %d both render as %q", p, n, name), map[string]interface{}{"a": p, "b": n})
			}
			seen[name] = n
			ok, want, _ := ref(name)
			if !ok || want != n {
				res.Violate("number-to-name", strconv.Itoa(n), fmt.Sprintf("number %d renders as %q which is not the name of %d", n, name, n), map[string]interface{}{"n": n, "name": name})
			}
			for _, variant := range []string{name, strings.ToLower(name)} {
				got, err := config.StringToNote(variant)
				if err != nil || int(got) != n {
					res.Violate("round-trip", strconv.Itoa(n), fmt.Sprintf("%d -> %q -> (%d, %v)", n, variant, got, err), map[string]interface{}{"n": n, "name": variant})
				}
			}
			if n < 3 {
				res.Sample(map[string]interface{}{"number": n, "name": name})
			}
		}
	}

	// (2) all strings up to a length over an alphabet, sharded on the first symbol
	type space struct {
		alpha  string
		maxLen int
	}
	full := "abcdefghijklmnopqrstuvwxyzABCDEFGHIJKLMNOPQRSTUVWXYZ0123456789#- \n\r"
	spaces := []space{{full, 4}}
	if *tier == "thorough" {
		spaces[0].maxLen = 5 // 65^5 = 1.16e9 strings
		spaces = append(spaces,
			space{"abceghzABCEGHZ0123789#- \n\x00\xc3", 5},
			space{"CEHc#-0289 \n", 7},
		)
	}
	for _, sp := range spaces {
		buf := make([]byte, 0, 8)
		var rec func(depth int)
		rec = func(depth int) {
			if depth > 0 {
				check(string(buf))
			}
			if depth == sp.maxLen {
				return
			}
			for i := 0; i < len(sp.alpha); i++ {
				if depth == 0 && i%*nshards != *shard {
					continue
				}
				buf = append(buf, sp.alpha[i])
				rec(depth + 1)
				buf = buf[:len(buf)-1]
			}
		}
		rec(0)
	}
	if *shard == 0 {
		check("")
		res.Sample("C#-2")
		res.Sample("h3 (must be rejected)")
	}
	res.Write(*out)
}

// classOf groups wrongly accepted strings by shape so that one defect = one class member.
func classOf(s string) string {
	var b strings.Builder
	for i := 0; i < len(s); i++ {
		c := s[i]
		switch {
		case c >= 'a' && c <= 'z', c >= 'A' && c <= 'Z':
			u := c &^ 32
			if u >= 'A' && u <= 'G' {
				if u == 'E' || u == 'B' {
					b.WriteString("[EB]")
				} else {
					b.WriteString("[A-G]")
				}
			} else {
				b.WriteString("[H-Z]")
			}
		case c >= '0' && c <= '9':
			b.WriteByte('d')
		default:
			b.WriteByte(c)
		}
	}
	return b.String()
}
