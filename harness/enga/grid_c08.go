//go:build verif

package main

import (
	"fmt"
	"os"

	"github.com/gethiox/HIDI/internal/pkg/midi"
	"github.com/gethiox/HIDI/internal/verif/vutil"
)

// C08 (transposition part): "turns the configured note of a direction (transposed like key notes) on". The octave and the
// semitone are walked far beyond the point where every note has left the MIDI range (real action presses); at every step
// both directions of a hat and of a stick are deflected and returned, and a key mapped to the same base note is tapped:
// the emulated key must sound exactly what the reference transposition gives (nothing when out of range) and exactly
// what the real key sounds, and its Note Off must match its Note On.
func gridC08(res *vutil.Result, tier string, shard, nshards int) {
	span := 24
	if tier == "thorough" {
		span = 135
	}
	type axisT struct {
		name     string
		pos, neg int32
		rest     int32
		note, nn int
	}
	axes := []axisT{{"ABS_HAT0X", 1, -1, 0, 64, 60}, {"ABS_RY", 127, -128, 0, 0, 127}, {"ABS_RX", 127, -128, 0, 127, 0}}
	job := 0
	for _, walk := range []string{"octave", "semitone", "both"} {
		for _, dir := range []int{1, -1} {
			job++
			if job%nshards != shard {
				continue
			}
			d := base("grid-c08", "off")
			d.Channel = 3
			d.Mappings = []MapDesc{{Name: "M0", Keys: km{K1: {64, 0}, K2: {60, 0}, K3: {0, 0}, K4: {127, 0}},
				Axes: []AxisDesc{
					{Name: "ABS_HAT0X", Type: "key", Note: 64, NoteNeg: 60, Min: -1, Max: 1, Deadzone: 0, Pos: []int32{-1, 0, 1}},
					{Name: "ABS_RY", Type: "key", Note: 0, NoteNeg: 127, Off: 2, OffNeg: 15, Min: -128, Max: 127, Deadzone: 0, Pos: []int32{-128, 0, 127}},
					{Name: "ABS_RX", Type: "key", Note: 127, NoteNeg: 0, Min: -128, Max: 127, Deadzone: 0, Pos: []int32{-128, 0, 127}}, // note 0 is a note, also as the negative one
				}}}
			acts(d, OU, "octave_up", OD, "octave_down", SU, "semitone_up", SD, "semitone_down")
			g := &gridDev{d: d, out: make(chan midi.Event, 4096), idx: map[string]int{}}
			g.alpha = d.Alphabet()
			for i, s := range g.alpha {
				g.idx[s.Name] = i
			}
			dev, err := d.Build(g.out, make(chan os.Signal, 4))
			if err != nil {
				panic("VERIF-INFRA: " + err.Error())
			}
			g.dev = dev
			g.ref = NewRef(d)
			keyFor := map[int]string{64: K1, 60: K2, 0: K3, 127: K4}
			for step := 0; step <= span; step++ {
				if step > 0 {
					if walk == "octave" || walk == "both" {
						if dir > 0 {
							g.tap(OU)
						} else {
							g.tap(OD)
						}
					}
					if walk == "semitone" || walk == "both" {
						if dir > 0 {
							g.tap(SD) // "both": octave up + semitone down and vice versa
						} else {
							g.tap(SU)
						}
					}
				}
				if int(int8(g.ref.Oct)) != g.ref.Oct || int(int8(g.ref.Sem)) != g.ref.Sem {
					break // the int8 counters themselves wrap here: recorded finding C04-int8-counters-wrap, not this property's business
				}
				where := fmt.Sprintf("%s walk, direction %+d", walk, dir)
				for _, a := range axes {
					ad := axisInMapping(d, 0, a.name)
					for _, side := range []struct {
						raw  int32
						base int
						off  int
						tag  string
					}{{a.pos, ad.Note, ad.Off, "positive"}, {a.neg, ad.NoteNeg, ad.OffNeg, "negative"}} {
						res.Add("evaluations", 1)
						on := g.send(a.name, side.raw)
						off := g.send(a.name, a.rest)
						ch, pitch, ok := g.ref.Transpose(side.base, side.off)
						var want []string
						if ok {
							want = []string{fmt.Sprintf("On ch%d/%d", ch+1, pitch)}
						}
						detail := map[string]interface{}{"axis": a.name, "direction": side.tag, "octave": g.ref.Oct, "semitone": g.ref.Sem, "base_note": side.base, "on": fmt.Sprint(semList(on)), "off": fmt.Sprint(semList(off))}
						got := semList(on)
						if fmt.Sprint(got) != fmt.Sprint(want) {
							res.Violate("keyemu-transposition", where, fmt.Sprintf("%s %s at octave %d semitone %d (base note %d): deflection emitted %v, the transposition rule gives %v", a.name, side.tag, g.ref.Oct, g.ref.Sem, side.base, got, want), detail)
							return
						}
						var wantOff []string
						if ok {
							wantOff = []string{fmt.Sprintf("Off ch%d/%d", ch+1, pitch)}
						}
						if fmt.Sprint(semList(off)) != fmt.Sprint(wantOff) {
							res.Violate("keyemu-noteoff-mismatch", where, fmt.Sprintf("%s %s at octave %d semitone %d: return to rest emitted %v after %v", a.name, side.tag, g.ref.Oct, g.ref.Sem, semList(off), got), detail)
							return
						}
						// like key notes: the key with the same base note (offset 0) sounds the same pitch, or is silent too
						kon := g.send(keyFor[side.base], 1)
						g.send(keyFor[side.base], 0)
						if (len(kon) > 0) != ok {
							res.Violate("keyemu-not-like-key-notes", where, fmt.Sprintf("octave %d semitone %d, base note %d: the key emitted %v, the emulated key %v", g.ref.Oct, g.ref.Sem, side.base, semList(kon), got), detail)
							return
						}
						res.Distinct(fmt.Sprintf("%s/%s/%v", a.name, side.tag, ok))
					}
				}
			}
			if job == 1 {
				res.Sample(map[string]interface{}{"walk": walk, "direction": dir, "steps": span, "axes": "hat (64/60) and stick (0/127 with channel offsets 2/15)"})
			}
		}
	}
}
