//go:build verif

package main

import "fmt"

const (
	K1 = "KEY_A"
	K2 = "KEY_S"
	K3 = "KEY_D"
	K4 = "KEY_F"
	K5 = "KEY_G"
	K6 = "KEY_H"
	K7 = "KEY_J"
	K8 = "KEY_K"
	OD = "KEY_F1"
	OU = "KEY_F2"
	SD = "KEY_F3"
	SU = "KEY_F4"
	CD = "KEY_F5"
	CU = "KEY_F6"
	MN = "KEY_F7"
	LE = "KEY_F8"
	MD = "KEY_F11"
	MU = "KEY_F12"
	PA = "KEY_ESC"
	AL = "KEY_LEFTALT"
	X1 = "KEY_Z"
	X2 = "KEY_X"
)

var modes = []string{"off", "no_repeat", "interrupt", "retrigger"}

func base(name, mode string) *Desc {
	return &Desc{Name: name, Mode: mode, Channel: 1, Velocity: 64, DefMap: "M0", Actions: map[string]string{},
		OctLo: -1, OctHi: 1, SemLo: -1, SemHi: 1}
}

func acts(d *Desc, kv ...string) *Desc {
	for i := 0; i < len(kv); i += 2 {
		d.Actions[kv[i]] = kv[i+1]
	}
	return d
}

type km = map[string]KeyNote

// keyScenarios: the S-keys family of DESIGN.md §3. big=true widens the bounds (thorough tier).
func keyScenarios(mode string, big bool) []*Desc {
	var out []*Desc
	lo, hi := -1, 1
	if big {
		lo, hi = -2, 2
	}
	// octave: K3 reaches K1/K2's pitch through transposition; K5 leaves the MIDI range
	d := base("octave", mode)
	d.Mappings = []MapDesc{{Name: "M0", Keys: km{K1: {60, 0}, K2: {60, 0}, K3: {48, 0}, K5: {127, 0}}}}
	if big {
		d.Mappings[0].Keys[K6] = KeyNote{72, 0}
	}
	acts(d, OU, "octave_up", OD, "octave_down")
	d.OctLo, d.OctHi = lo, hi
	out = append(out, d)
	// semitone
	d = base("semitone", mode)
	d.Mappings = []MapDesc{{Name: "M0", Keys: km{K1: {60, 0}, K2: {61, 0}, K6: {0, 0}}}}
	if big {
		d.Mappings[0].Keys[K3] = KeyNote{59, 0}
		d.Mappings[0].Keys[K5] = KeyNote{127, 0}
	}
	acts(d, SU, "semitone_up", SD, "semitone_down")
	d.SemLo, d.SemHi = lo, hi
	out = append(out, d)
	// channel: offsets 1 and 15 wrap around channel 16
	d = base("channel", mode)
	d.Channel = 15
	d.Mappings = []MapDesc{{Name: "M0", Keys: km{K1: {60, 0}, K4: {60, 1}, K8: {60, 15}}}}
	if big {
		d.Mappings[0].Keys[K2] = KeyNote{60, 0}
	}
	acts(d, CU, "channel_up", CD, "channel_down")
	d.ChSet = []int{0, 13, 14, 15}
	if big {
		d.ChSet = []int{0, 1, 12, 13, 14, 15}
	}
	out = append(out, d)
	// mapping: K2 becomes unmapped, K1 changes note, K3 moves onto K1's old pitch
	d = base("mapping", mode)
	d.Mappings = []MapDesc{
		{Name: "M0", Keys: km{K1: {60, 0}, K2: {60, 0}, K3: {48, 0}}},
		{Name: "M1", Keys: km{K1: {62, 0}, K3: {60, 0}, K4: {60, 15}}},
	}
	if big {
		d.Mappings = append(d.Mappings, MapDesc{Name: "M2", Keys: km{K2: {62, 0}, K4: {60, 0}}})
	}
	acts(d, MU, "mapping_up", MD, "mapping_down", PA, "panic")
	out = append(out, d)
	// mixed: one of each kind of state change
	d = base("mixed", mode)
	d.Mappings = []MapDesc{
		{Name: "M0", Keys: km{K1: {60, 0}, K2: {60, 0}, K4: {60, 1}}},
		{Name: "M1", Keys: km{K1: {62, 0}, K4: {48, 15}}},
	}
	acts(d, OU, "octave_up", CU, "channel_up", MU, "mapping_up", PA, "panic")
	if big {
		acts(d, SD, "semitone_down", MD, "mapping_down")
	}
	d.OctLo, d.OctHi = 0, 1
	d.ChSet = []int{0, 1}
	out = append(out, d)
	// two sub-handlers of one device deliver the same key code (e.g. a gamepad and its touchpad both have BTN_LEFT)
	d = base("subhandlers", mode)
	d.Mappings = []MapDesc{
		{Name: "M0", Keys: km{K1: {60, 0}, K2: {64, 0}}, SubKeys: map[string]map[string]KeyNote{"Touchpad": {K1: {72, 0}, K3: {60, 0}}}},
		{Name: "M1", Keys: km{K1: {62, 0}}, SubKeys: map[string]map[string]KeyNote{"Touchpad": {K1: {62, 1}}}},
	}
	acts(d, OU, "octave_up", MU, "mapping_up", MD, "mapping_down")
	d.OctLo, d.OctHi = 0, 1
	out = append(out, d)
	// misc actions: multinote, cc-learning
	d = base("misc-actions", mode)
	d.Mappings = []MapDesc{{Name: "M0", Keys: km{K1: {60, 0}, K2: {64, 0}, K3: {67, 0}}}}
	acts(d, MN, "multinote", LE, "cc_learning", OU, "octave_up")
	d.OctLo, d.OctHi = 0, 1
	out = append(out, d)
	return out
}

func collisionScenario(mode string, big bool) *Desc {
	d := base("collision", mode)
	d.Channel = 2
	d.Mappings = []MapDesc{{Name: "M0", Keys: km{K1: {60, 0}, K2: {60, 0}, K3: {48, 0}, K4: {60, 1}}}}
	if big {
		d.Mappings[0].Keys[K5] = KeyNote{72, 0}
	}
	acts(d, OU, "octave_up", OD, "octave_down", CU, "channel_up", CD, "channel_down")
	d.OctLo, d.OctHi = 0, 1
	d.ChSet = []int{0, 1}
	return d
}

func panicScenario(mode string, big bool) *Desc {
	d := base("panic", mode)
	d.Mappings = []MapDesc{{Name: "M0", Keys: km{K1: {60, 0}, K2: {60, 0}, K3: {64, 0}}}}
	acts(d, PA, "panic", CU, "channel_up", OU, "octave_up", OD, "octave_down") // OU+OD: panic is also injected while a pair is held
	if big {
		acts(d, CD, "channel_down")
		d.Mappings[0].Keys[K4] = KeyNote{60, 1}
	}
	d.OctLo, d.OctHi = 0, 1
	d.ChSet = []int{0, 1}
	return d
}

// panicChannelScenario: panic around channel up / down and their chord (the pair reset changes the channel as well)
func panicChannelScenario(mode string) *Desc {
	d := base("panic-channel-chord", mode)
	d.Channel = 2
	// (the panic key also has a note in the mapping: the action wins, as for every key with both roles)
	d.Mappings = []MapDesc{{Name: "M0", Keys: km{K1: {60, 0}, K4: {60, 1}, PA: {70, 0}}}}
	acts(d, PA, "panic", CU, "channel_up", CD, "channel_down")
	d.ChSet = []int{0, 1, 2}
	return d
}

// panicSwallowedPairScenario: further action keys pressed on top of a held up/down pair are swallowed but count as held; when the
// first pair is released they form a pair that was never "completed" - panic in that state must not act on it
func panicSwallowedPairScenario(mode string) *Desc {
	d := base("panic-swallowed-pair", mode)
	d.Channel = 4
	d.Mappings = []MapDesc{{Name: "M0", Keys: km{K1: {60, 0}}}}
	acts(d, PA, "panic", OU, "octave_up", OD, "octave_down", CU, "channel_up", CD, "channel_down")
	d.OctLo, d.OctHi = 0, 1
	d.ChSet = []int{0, 3, 4}
	d.FreeActions = true
	return d
}

// panicAxisScenario: panic bound to a hat (both directions), interleaved with CC-learning, channel changes and a held note
func panicAxisScenario(mode string) *Desc {
	d := base("panic-axis", mode)
	d.Mappings = []MapDesc{{Name: "M0", Keys: km{K1: {60, 0}, K2: {60, 0}}, Axes: []AxisDesc{
		{Name: "ABS_HAT0Y", Type: "action", Action: "panic", ActNeg: "panic", Min: -1, Max: 1, Deadzone: 0, Pos: []int32{-1, 0, 1}}}}}
	acts(d, LE, "cc_learning", CU, "channel_up", PA, "panic") // the panic key may be down while the axis triggers panic too
	acts(d, OU, "octave_up", OD, "octave_down")               // ... and while an up/down pair is held
	d.OctLo, d.OctHi = 0, 1
	d.ChSet = []int{0, 1}
	return d
}

func actionScenarios(big bool) []*Desc {
	var out []*Desc
	groups := [][2]string{{OU, "octave_up"}, {OD, "octave_down"}, {SU, "semitone_up"}, {SD, "semitone_down"}, {CU, "channel_up"}, {CD, "channel_down"}, {MU, "mapping_up"}, {MD, "mapping_down"}}
	mkd := func(name string, ch int, sel []int) *Desc {
		d := base(name, "off")
		d.Channel = ch
		d.Velocity = 101
		d.Mappings = []MapDesc{
			{Name: "M0", Keys: km{K1: {60, 0}, K4: {64, 3}}},
			{Name: "M1", Keys: km{K1: {61, 0}}},
			{Name: "M2", Keys: km{K1: {62, 0}, K4: {0, 15}}},
		}
		d.DefMap = "M1"
		for _, g := range sel {
			d.Actions[groups[2*g][0]] = groups[2*g][1]
			d.Actions[groups[2*g+1][0]] = groups[2*g+1][1]
		}
		d.ChSet = []int{0, 1, 14, 15}
		if big {
			d.OctLo, d.OctHi, d.SemLo, d.SemHi = -2, 2, -2, 2
		}
		return d
	}
	names := []string{"oct", "sem", "ch", "map"}
	for _, ch := range []int{1, 16} {
		for a := 0; a < 4; a++ {
			for b := a + 1; b < 4; b++ {
				out = append(out, mkd(fmt.Sprintf("actions-%s-%s-ch%d", names[a], names[b], ch), ch, []int{a, b}))
			}
		}
		if big {
			out = append(out, mkd(fmt.Sprintf("actions-all-ch%d", ch), ch, []int{0, 1, 2, 3}))
		}
	}
	// non-zero defaults are the initial state; velocity 0 means 64
	d := base("actions-defaults", "off")
	d.Octave, d.Semitone, d.Channel, d.Velocity = 1, -1, 3, 0
	d.Mappings = []MapDesc{{Name: "M0", Keys: km{K1: {60, 0}}}, {Name: "M1", Keys: km{K1: {10, 2}, K2: {120, 0}}}}
	d.DefMap = "M1"
	acts(d, OU, "octave_up", OD, "octave_down", SU, "semitone_up", SD, "semitone_down", CU, "channel_up", MD, "mapping_down")
	d.OctLo, d.OctHi, d.SemLo, d.SemHi = 0, 2, -2, 0
	d.ChSet = []int{0, 1, 2, 3}
	out = append(out, d)
	// the panic action changes no parameter and does not disturb pair detection: one key of a pair held, panic tapped,
	// then the partner - that press still completes the pair (and a lone press after panic still moves by exactly one)
	d = base("actions-panic-between-pair", "off")
	d.Channel = 3
	d.Mappings = []MapDesc{{Name: "M0", Keys: km{K1: {60, 0}}}, {Name: "M1", Keys: km{K1: {61, 2}}}}
	d.DefMap = "M1"
	acts(d, PA, "panic", OU, "octave_up", OD, "octave_down", CU, "channel_up", CD, "channel_down")
	d.OctLo, d.OctHi = 0, 2
	d.ChSet = []int{0, 1, 2, 3}
	out = append(out, d)
	// two keys bound to the same action (no opposite action in the alphabet, so "a pair" stays unambiguous):
	// every press moves the value by exactly one, also while the other key of that action is still held
	for v := 0; v < 2; v++ {
		d = base(fmt.Sprintf("actions-two-keys-one-action-%d", v), "off")
		d.Mappings = []MapDesc{{Name: "M0", Keys: km{K1: {60, 0}}}, {Name: "M1", Keys: km{K1: {61, 0}}}, {Name: "M2", Keys: km{K1: {62, 0}}}}
		if v == 0 {
			acts(d, OU, "octave_up", OD, "octave_up", MU, "mapping_up", MD, "mapping_up")
		} else {
			acts(d, SD, "semitone_down", SU, "semitone_down", CU, "channel_up", CD, "channel_up")
		}
		d.OctLo, d.OctHi, d.SemLo, d.SemHi = 0, 2, -2, 0
		d.ChSet = []int{0, 1, 2}
		out = append(out, d)
	}
	return out
}

func exitScenarios(big bool) []*Desc {
	var out []*Desc
	mode := "interrupt"
	mkd := func(name string, exit []string) *Desc {
		d := base(name, mode)
		d.Exit = exit
		d.Mappings = []MapDesc{{Name: "M0", Keys: km{K1: {60, 0}, K2: {62, 0}}}}
		acts(d, PA, "panic", OU, "octave_up")
		d.OctLo, d.OctHi = 0, 1
		d.Extra = []string{X1}
		return d
	}
	out = append(out, mkd("exit-0", nil))
	out = append(out, mkd("exit-1-note", []string{K1}))
	out = append(out, mkd("exit-1-panic", []string{PA}))
	out = append(out, mkd("exit-2-factory", []string{AL, PA}))
	out = append(out, mkd("exit-2-note-action", []string{K1, OU}))
	out = append(out, mkd("exit-3", []string{AL, K2, OU}))
	out = append(out, mkd("exit-3-unmapped", []string{AL, X1, X2}))
	// a key bound to the action "exit" (the parser accepts it; it has no behaviour of its own): the signal
	// still depends on the exit sequence alone - never with an empty one, not before the sequence is complete
	de := mkd("exit-0-exit-action-key", nil)
	acts(de, X2, "exit")
	out = append(out, de)
	de = mkd("exit-2-exit-action-key", []string{AL, PA})
	acts(de, X2, "exit")
	out = append(out, de)
	// one sequence key is delivered by another sub-handler of the device (keyboards split their keys over several nodes)
	ds := mkd("exit-2-across-subhandlers", []string{AL, X2})
	ds.Mappings[0].SubKeys = map[string]map[string]KeyNote{"Keyboard": {X2: {70, 0}, K3: {60, 0}}}
	ds.ExitOnSub = []string{X2}
	out = append(out, ds)
	if !big {
		return out
	}
	// thorough: every collision mode, both keys of an action pair in the sequence, a sequence
	// made of actions only, a note shared by two sequence keys, a sub-handler delivering a sequence key
	for _, m := range []string{"off", "no_repeat", "retrigger"} {
		mode = m
		out = append(out, mkd("exit-1-note", []string{K1}))
		out = append(out, mkd("exit-2-factory", []string{AL, PA}))
		out = append(out, mkd("exit-2-note-action", []string{K1, OU}))
		out = append(out, mkd("exit-3", []string{AL, K2, OU}))
	}
	for _, m := range modes {
		mode = m
		d := mkd("exit-2-pair", []string{OU, OD})
		acts(d, OD, "octave_down")
		d.OctLo = -1
		out = append(out, d)
		d = mkd("exit-3-pair-and-panic", []string{OU, OD, PA})
		acts(d, OD, "octave_down")
		d.OctLo = -1
		out = append(out, d)
		d = mkd("exit-3-actions", []string{CU, MU, LE})
		d.Mappings = append(d.Mappings, MapDesc{Name: "M1", Keys: km{K1: {61, 1}}})
		acts(d, CU, "channel_up", MU, "mapping_up", LE, "cc_learning", MN, "multinote")
		d.ChSet = []int{0, 1}
		out = append(out, d)
		d = mkd("exit-2-same-pitch", []string{K1, K2})
		d.Mappings[0].Keys[K2] = KeyNote{60, 0}
		d.Mappings[0].Keys[K3] = KeyNote{60, 0}
		out = append(out, d)
		d = mkd("exit-2-subhandler", []string{K1, AL})
		// (the sub-handler's keys are not sequence keys: a second physical key with the code of a
		// sequence key is outside C14's quantifier - see DESIGN.md 9.5)
		d.Mappings[0].SubKeys = map[string]map[string]KeyNote{"Touchpad": {K2: {72, 0}, K3: {60, 0}}}
		out = append(out, d)
	}
	return out
}

func monsOf(kinds ...string) func(s *Scenario, w *worker) []Monitor {
	return func(s *Scenario, w *worker) []Monitor {
		ms := []Monitor{wellFormed{}}
		for _, k := range kinds {
			switch k {
			case "receiver":
				ms = append(ms, newReceiver())
			case "pairing":
				ms = append(ms, newPairing())
			case "collision":
				ms = append(ms, newCollision())
			case "arith":
				ms = append(ms, arith{})
			case "exit":
				ms = append(ms, exitMon{})
			case "panic":
				dev, err := s.D.Build(w.out, w.sigs)
				if err != nil {
					panic("VERIF-INFRA: " + err.Error())
				}
				ms = append(ms, &panicMon{shadow: dev})
			case "cc":
				ms = append(ms, newCCMon())
			case "keyemu":
				ms = append(ms, newKeyEmu())
			case "xfer":
				ms = append(ms, newXferMon())
			}
		}
		return ms
	}
}

func jobsFor(prop, tier string) []job {
	big := tier == "thorough"
	var js []job
	add := func(d *Desc, rep bool, cap int, kinds ...string) {
		s := mk(d, monsOf(kinds...))
		s.Repeat = rep
		s.MaxState = cap
		js = append(js, job{d.Name + "/" + d.Mode, s})
	}
	cap := 400000
	if big {
		cap = 1500000
	}
	switch prop {
	case "C01":
		for _, m := range modes {
			for _, d := range keyScenarios(m, big) {
				add(d, d.Name == "octave", cap, "receiver")
			}
		}
		for _, d := range keyEmuScenarios(big, true) {
			add(d, false, cap, "receiver")
		}
		add(keyEmuSubScenario(), false, cap, "receiver")
		add(keyEmuBecomesCCScenario("interrupt"), false, cap, "receiver")
	case "C02":
		for _, m := range modes {
			for _, d := range keyScenarios(m, big) {
				add(d, d.Name == "mapping", cap, "pairing")
			}
		}
	case "C03":
		for _, m := range modes {
			add(collisionScenario(m, big), false, cap, "collision")
			for _, d := range keyScenarios(m, false) {
				if d.Name == "octave" || d.Name == "mapping" || d.Name == "channel" {
					add(d, false, cap, "collision")
				}
			}
		}
	case "C04":
		for _, d := range actionScenarios(big) {
			add(d, false, cap, "arith")
		}
	case "C13":
		for _, m := range modes {
			add(panicScenario(m, big), false, cap, "panic")
		}
		add(panicAxisScenario("interrupt"), false, cap, "panic")
		add(panicAxisScenario("no_repeat"), false, cap, "panic")
		add(panicChannelScenario("interrupt"), false, cap, "panic")
		add(panicChannelScenario("off"), false, cap, "panic")
		add(panicSwallowedPairScenario("interrupt"), false, cap, "panic")
	case "C14":
		for _, d := range exitScenarios(big) {
			add(d, true, cap, "exit")
			js[len(js)-1].sc.BeyondExit = true
		}
	case "C05":
		for _, m := range []string{"interrupt", "off"} {
			for _, d := range keyScenarios(m, big) {
				add(d, false, cap)
			}
			add(panicScenario(m, big), false, cap)
		}
		add(panicChannelScenario("interrupt"), false, cap)
		for _, d := range ccScenarios(big) {
			add(d, false, cap)
		}
		for _, d := range keyEmuScenarios(big, false) {
			add(d, false, cap)
		}
		for _, d := range keyEmuScenarios(big, true) {
			add(d, false, cap)
		}
	case "C06":
		for _, d := range xferScenarios(big) {
			add(d, false, cap, "xfer")
		}
	case "C07":
		for _, d := range ccScenarios(big) {
			add(d, false, cap, "cc")
		}
	case "C08":
		for _, d := range keyEmuScenarios(big, false) {
			add(d, false, cap, "keyemu")
		}
		add(keyEmuSubScenario(), false, cap, "keyemu")
		add(keyEmuCoincideScenario("interrupt"), false, cap, "keyemu")
		add(keyEmuCoincideScenario("off"), false, cap, "keyemu")
	}
	return js
}
