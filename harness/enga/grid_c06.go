//go:build verif

package main

import (
	"fmt"
	"math/big"
	"os"

	"github.com/gethiox/HIDI/internal/pkg/midi"
	"github.com/gethiox/HIDI/internal/pkg/midi/device"
	"github.com/gethiox/HIDI/internal/verif/vutil"
)

// C06: axis -> CC / pitch-bend transfer function, every (previous raw, new raw) pair of 8-bit
// axes, for every combination of range / deadzone source / deadzone / flip / centring / target,
// against an exact-rational reference. Judged at the receiver (last value per controller / bend).

type c06Variant struct {
	Range    string // s8 | u8 | s16 | hat
	DZSource string // axis | handler | global
	DZ       float64
	Flip     bool
	Center   bool
	Target   string // cc | bidir | bend
}

func (v c06Variant) String() string {
	return fmt.Sprintf("%s/%s-dz%v/flip=%v/center=%v/%s", v.Range, v.DZSource, v.DZ, v.Flip, v.Center, v.Target)
}

func (v c06Variant) axis() AxisDesc {
	a := AxisDesc{Name: "ABS_X", Flip: v.Flip, DZCenter: v.Center, Deadzone: v.DZ, CCNeg: -1, NoteNeg: -1, Off: 3, OffNeg: 5}
	switch v.Range {
	case "s8":
		a.Min, a.Max = -128, 127
	case "u8":
		a.Min, a.Max = 0, 255
	case "s16":
		a.Min, a.Max = -32768, 32767
	case "u16":
		a.Min, a.Max = 0, 65535
	case "hat":
		a.Min, a.Max = -1, 1
	}
	switch v.Target {
	case "cc":
		a.Type, a.CC = "cc", 20
	case "bidir":
		a.Type, a.CC, a.CCNeg = "cc", 20, 21
	case "bend":
		a.Type = "pitch_bend"
		a.OffNeg = 0
	}
	return a
}

// toml renders the three deadzone sources explicitly (Desc.TOML always uses the per-axis table).
func (v c06Variant) toml() string {
	a := v.axis()
	f := fmt.Sprintf("type = %q", a.Type)
	if a.Type == "cc" {
		f += fmt.Sprintf(", cc = %d", a.CC)
		if a.CCNeg >= 0 {
			f += fmt.Sprintf(", cc_negative = %d, channel_offset_negative = %d", a.CCNeg, a.OffNeg)
		}
	}
	f += fmt.Sprintf(", channel_offset = %d", a.Off)
	if a.Flip {
		f += ", flip_axis = true"
	}
	if a.DZCenter {
		f += ", deadzone_at_center = true"
	}
	dz := fmt.Sprintf("%v", v.DZ)
	if v.DZ == float64(int(v.DZ)) {
		dz += ".0"
	}
	head := "collision_mode = \"off\"\nexit_sequence = []\n[identifier]\nbus = 0\n[defaults]\noctave = 0\nsemitone = 0\nchannel = 2\nmapping = \"M0\"\nvelocity = 64\n[action_mapping]\n[[mapping]]\nname = \"M0\"\n"
	switch v.DZSource {
	case "axis":
		return head + "[[mapping.analog]]\nsubhandler = \"\"\ndefault_deadzone = 0.77\n[mapping.analog.map]\nABS_X = { " + f + " }\n[mapping.analog.deadzones]\nABS_X = " + dz + "\nABS_Y = 0.9\n"
	case "handler":
		return head + "[[mapping.analog]]\nsubhandler = \"\"\ndefault_deadzone = " + dz + "\n[mapping.analog.map]\nABS_X = { " + f + " }\n[mapping.analog.deadzones]\nABS_Y = 0.9\n"
	}
	panic("unknown deadzone source")
}

type c06Recv struct {
	cc   map[[2]int]int
	bend map[int]int
	n    int
}

func (r *c06Recv) apply(ms []midi.Event, res *vutil.Result, where string) {
	for _, m := range ms {
		pm := parse(m)
		r.n++
		switch pm.kind {
		case kCC:
			r.cc[[2]int{pm.ch, pm.a}] = pm.b
		case kPB:
			r.bend[pm.ch] = pm.a
		default:
			res.Violate("axis-emits-unexpected-message", where, fmt.Sprintf("axis event produced [% x]", []byte(m)), nil)
		}
	}
}

func gridC06(res *vutil.Result, tier string, shard, nshards int) {
	var vs []c06Variant
	dzs := []float64{0, 0.05, 0.1, 0.25, 0.5}
	if tier == "thorough" {
		dzs = []float64{0, 0.01, 0.05, 0.06, 0.09, 0.1, 0.13, 0.21, 0.25, 0.33, 0.5, 0.75, 0.9, 0.99}
	}
	for _, rng := range []string{"s8", "u8", "hat", "s16", "u16"} {
		for _, src := range []string{"axis", "handler"} {
			for _, dz := range dzs {
				for _, flip := range []bool{false, true} {
					for _, center := range []bool{false, true} {
						if center && rng != "u8" && rng != "u16" {
							continue // deadzone_at_center only on axes with min 0
						}
						for _, tgt := range []string{"cc", "bidir", "bend"} {
							if tgt == "bidir" && (rng == "u8" || rng == "u16") && !center {
								continue // quantifier: bidirectional on signed and centred unsigned axes
							}
							vs = append(vs, c06Variant{rng, src, dz, flip, center, tgt})
						}
					}
				}
			}
		}
	}
	for i, v := range vs {
		if i%nshards != shard {
			continue
		}
		runC06(res, v, tier)
	}
	if shard == 0 {
		// end-stop / rest checks on the whole deadzone grid 0.00 .. 0.99
		for k := 0; k < 100; k++ {
			for _, tgt := range []string{"cc", "bidir", "bend"} {
				for _, rng := range []string{"s8", "u8"} {
					v := c06Variant{rng, "axis", float64(k) / 100, false, rng == "u8", tgt}
					runC06Ends(res, v)
				}
			}
		}
	}
}

func buildC06(v c06Variant) (*gridDev, *AxisDesc) {
	a := v.axis()
	d := base("c06", "off")
	d.Channel = 2
	d.Mappings = []MapDesc{{Name: "M0", Keys: km{}, Axes: []AxisDesc{a}}}
	g := &gridDev{d: d, out: make(chan midi.Event, 64)}
	g.alpha = d.Alphabet()
	g.idx = map[string]int{"ABS_X": 0}
	cfgTOML := v.toml()
	dev, err := buildFromTOML(d, cfgTOML, g.out, make(chan os.Signal, 1))
	if err != nil {
		panic("VERIF-INFRA: " + err.Error())
	}
	g.dev = dev
	g.ref = NewRef(d)
	return g, &d.Mappings[0].Axes[0]
}

// expected receiver picture for a raw position: exact values (as rationals) for each observable
type c06Exp struct {
	key   string
	exact *big.Rat
}

func c06Expect(a *AxisDesc, v c06Variant, raw int32, ch int) []c06Exp {
	s, two := Shaped(a, raw)
	one := rat(1, 1)
	switch v.Target {
	case "bend":
		x := s
		if !two {
			x = new(big.Rat).Sub(new(big.Rat).Mul(s, rat(2, 1)), one)
		}
		// (x+1)/2 * 16383, centre 8192
		e := new(big.Rat).Mul(new(big.Rat).Quo(new(big.Rat).Add(x, one), rat(2, 1)), rat(16383, 1))
		return []c06Exp{{fmt.Sprintf("bend/%d", (ch+a.Off)%16), e}}
	case "cc":
		x := s
		if two {
			x = new(big.Rat).Quo(new(big.Rat).Add(s, one), rat(2, 1))
		}
		return []c06Exp{{fmt.Sprintf("cc/%d/%d", (ch+a.Off)%16, a.CC), new(big.Rat).Mul(x, rat(127, 1))}}
	default: // bidir (two-sided only)
		mag := new(big.Rat).Mul(new(big.Rat).Abs(s), rat(127, 1))
		zero := rat(0, 1)
		p, n := fmt.Sprintf("cc/%d/%d", (ch+a.Off)%16, a.CC), fmt.Sprintf("cc/%d/%d", (ch+a.OffNeg)%16, a.CCNeg)
		if s.Sign() >= 0 {
			return []c06Exp{{p, mag}, {n, zero}}
		}
		return []c06Exp{{p, zero}, {n, mag}}
	}
}

func (r *c06Recv) get(key string) (int, bool) {
	var a, b int
	if n, _ := fmt.Sscanf(key, "bend/%d", &a); n == 1 && key[0] == 'b' {
		v, ok := r.bend[a]
		return v, ok
	}
	fmt.Sscanf(key, "cc/%d/%d", &a, &b)
	v, ok := r.cc[[2]int{a, b}]
	return v, ok
}

func c06Positions(v c06Variant, a *AxisDesc) []int32 {
	var ps []int32
	switch v.Range {
	case "s8", "u8":
		for r := a.Min; r <= a.Max; r++ {
			ps = append(ps, r)
		}
	case "hat":
		ps = []int32{-1, 0, 1}
	case "s16", "u16":
		seen := map[int32]bool{}
		add := func(c float64) {
			for d := int32(-3); d <= 3; d++ {
				x := int32(c) + d
				if x >= a.Min && x <= a.Max && !seen[x] {
					seen[x] = true
					ps = append(ps, x)
				}
			}
		}
		centres := []float64{-32768, -v.DZ * 32768, 0, v.DZ * 32767, 32767, -16384, 16383.5, -32768 * (v.DZ + (1-v.DZ)/2), 32767 * (v.DZ + (1-v.DZ)/2)}
		if v.Range == "u16" {
			centres = []float64{0, 65535, 32767.5, 16384, 49151, v.DZ * 65535, 32767.5 - v.DZ*32767.5, 32767.5 + v.DZ*32767.5}
		}
		for _, c := range centres {
			add(c)
		}
		for x := a.Min; x <= a.Max; x += 257 {
			if !seen[x] {
				seen[x] = true
				ps = append(ps, x)
			}
		}
		// sort ascending for the monotonicity sweep
		for i := 1; i < len(ps); i++ {
			for j := i; j > 0 && ps[j-1] > ps[j]; j-- {
				ps[j-1], ps[j] = ps[j], ps[j-1]
			}
		}
	}
	return ps
}

func runC06(res *vutil.Result, v c06Variant, tier string) {
	g, a := buildC06(v)
	ps := c06Positions(v, a)
	prevs := ps
	if v.Range == "s16" || v.Range == "u16" {
		// previous positions: samples, plus everything within 3 of an end stop, of the centre and of the
		// deadzone edges (a transmitted value may only be skipped when it really is a repetition)
		prevs = []int32{a.Min, a.Min + (a.Max-a.Min)/3, a.Min + (a.Max-a.Min)/2, a.Max - (a.Max-a.Min)/5, a.Max}
		mid := float64(a.Min) + (float64(a.Max)-float64(a.Min))/2
		half := (float64(a.Max) - float64(a.Min)) / 2
		near := []float64{float64(a.Min), float64(a.Max), mid, mid - v.DZ*half, mid + v.DZ*half, float64(a.Min) + v.DZ*2*half}
		for _, c := range near {
			for d := int32(-3); d <= 3; d++ {
				if x := int32(c) + d; x >= a.Min && x <= a.Max {
					prevs = append(prevs, x)
				}
			}
		}
	}
	rc := &c06Recv{cc: map[[2]int]int{}, bend: map[int]int{}}
	ch := g.ref.Ch
	where := v.String()
	restKey := ""
	bad := 0
	for _, prev := range prevs {
		lastVal := map[string]int{}
		first := true
		for _, cur := range ps {
			rc.apply(g.send("ABS_X", prev), res, where)
			rc.apply(g.send("ABS_X", cur), res, where)
			res.Add("evaluations", 1)
			for _, e := range c06Expect(a, v, cur, ch) {
				got, ok := rc.get(e.key)
				if !ok {
					continue // nothing was ever transmitted for this observable: the receiver has no value to judge
				}
				f, _ := e.exact.Float64()
				detail := map[string]interface{}{"variant": where, "toml": v.toml(), "axis_range": []int32{a.Min, a.Max}, "previous_raw": prev, "raw": cur, "observable": e.key, "received": got, "exact": f}
				// "within one step": got must be one of the integers neighbouring the exact value,
				// i.e. floor(exact)-1 <= got <= ceil(exact)+1 (floating-point noise at an integer boundary stays inside)
				fl := new(big.Int).Div(e.exact.Num(), e.exact.Denom()) // floor (exact >= 0)
				lo, hi := fl.Int64()-1, fl.Int64()+1
				if !e.exact.IsInt() {
					hi++
				}
				if int64(got) < lo || int64(got) > hi {
					bad++
					res.Violate("transfer-off-by-more-than-one-step", where, fmt.Sprintf("%s: raw %d (after %d): receiver has %s = %d, exact value %.4f", where, cur, prev, e.key, got, f), detail)
				}
				// end stops: exactly the ends of the range
				if cur == a.Min || cur == a.Max {
					if e.exact.IsInt() && rat(int64(got), 1).Cmp(e.exact) != 0 {
						bad++
						res.Violate("end-stop-not-exact", fmt.Sprintf("%s/dz=%v/%s/raw=%d", v.Range, v.DZ, v.Target, cur), fmt.Sprintf("%s: physical end stop raw %d must give %s = %s exactly, receiver has %d", where, cur, e.key, e.exact.RatString(), got), detail)
					}
				}
				// rest: inside the deadzone exactly the rest value
				s, _ := Shaped(&AxisDesc{Min: a.Min, Max: a.Max, DZCenter: a.DZCenter, Deadzone: a.Deadzone}, cur)
				if s.Sign() == 0 && insideDeadzone(a, cur) {
					okRest := false
					switch {
					case e.exact.IsInt():
						okRest = rat(int64(got), 1).Cmp(e.exact) == 0
					case v.Target == "bend":
						okRest = got == 8192
					default: // mid-scale 63.5: 63 or 64
						okRest = got == 63 || got == 64
					}
					if !okRest {
						bad++
						res.Violate("rest-value-not-exact", fmt.Sprintf("%s/%s", v.Range, v.Target), fmt.Sprintf("%s: raw %d is inside the deadzone; rest value of %s must be %s, receiver has %d", where, cur, e.key, restName(v, e.exact), got), detail)
					}
					restKey = e.key
				}
				// monotonic in the raw position (for a fixed previous value)
				if lv, seen := lastVal[e.key]; seen && !first {
					inc := got >= lv
					dec := got <= lv
					wantInc := expectedDirection(a, v, e.key)
					if (wantInc > 0 && !inc) || (wantInc < 0 && !dec) {
						bad++
						res.Violate("not-monotonic", where, fmt.Sprintf("%s: %s went from %d to %d when raw moved up to %d (previous value %d)", where, e.key, lv, got, cur, prev), detail)
					}
				}
				lastVal[e.key] = got
			}
			first = false
			if bad > 50 {
				return
			}
		}
	}
	_ = restKey
	res.Distinct(where)
	res.Add("messages", int64(rc.n))
	if len(res.Samples) < 3 {
		res.Sample(map[string]interface{}{"variant": where, "positions": len(ps), "previous_values": len(prevs)})
	}
}

func restName(v c06Variant, exact *big.Rat) string {
	if v.Target == "bend" {
		return "8192 (pitch-bend centre)"
	}
	if exact.IsInt() {
		return exact.RatString()
	}
	return "63 or 64 (mid-scale)"
}

func insideDeadzone(a *AxisDesc, raw int32) bool {
	s, _ := Shaped(&AxisDesc{Min: a.Min, Max: a.Max, DZCenter: a.DZCenter, Deadzone: a.Deadzone}, raw)
	return s.Sign() == 0
}

// expectedDirection: +1 if the observable must be non-decreasing in raw, -1 non-increasing, 0 no constraint
// (the two controllers of a bidirectional pair are V-shaped: one falls to the centre, the other rises from it).
func expectedDirection(a *AxisDesc, v c06Variant, key string) int {
	if v.Target == "bidir" {
		return 0
	}
	if a.Flip {
		return -1
	}
	return 1
}

// runC06Ends: only the end stops and the centre, for every deadzone 0.00..0.99
func runC06Ends(res *vutil.Result, v c06Variant) {
	g, a := buildC06(v)
	rc := &c06Recv{cc: map[[2]int]int{}, bend: map[int]int{}}
	mid := int32((int64(a.Min) + int64(a.Max)) / 2)
	if a.Min < 0 {
		mid = 0
	}
	where := v.String()
	for _, cur := range []int32{a.Min, mid, a.Max, mid, a.Min, a.Max, a.Min} {
		rc.apply(g.send("ABS_X", cur), res, where)
		res.Add("evaluations", 1)
		for _, e := range c06Expect(a, v, cur, g.ref.Ch) {
			got, ok := rc.get(e.key)
			if !ok {
				continue
			}
			f, _ := e.exact.Float64()
			detail := map[string]interface{}{"variant": where, "toml": v.toml(), "raw": cur, "observable": e.key, "received": got, "exact": f}
			if e.exact.IsInt() {
				if rat(int64(got), 1).Cmp(e.exact) != 0 {
					cls := "end-stop-not-exact"
					if cur == mid {
						cls = "rest-value-not-exact"
					}
					res.Violate(cls, fmt.Sprintf("%s/dz=%v/%s/raw=%d", v.Range, v.DZ, v.Target, cur), fmt.Sprintf("%s: raw %d must give %s = %s exactly, receiver has %d", where, cur, e.key, e.exact.RatString(), got), detail)
				}
			} else if v.Target == "bend" && cur == mid && insideDeadzone(a, cur) && got != 8192 {
				res.Violate("rest-value-not-exact", fmt.Sprintf("%s/%s", v.Range, v.Target), fmt.Sprintf("%s: raw %d is the rest position; pitch bend must be 8192, receiver has %d", where, cur, got), detail)
			}
		}
	}
}

var _ = device.VerifStep
