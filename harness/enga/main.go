//go:build verif

// Engine A: explicit-state breadth-first search to a fixpoint over the REAL device.Device
// (clone + processEvent per transition), in product with monitors written from the
// property statements; every discovered state's witness history is replayed through the
// real ProcessEvents loop (conformance + disconnect clean-up). See /verif/DESIGN.md §2.2.
package main

import (
	"flag"
	"fmt"
	"os"
	"runtime"
	"runtime/debug"
	"runtime/pprof"

	"github.com/gethiox/HIDI/internal/pkg/logger"
	"github.com/gethiox/HIDI/internal/verif/vutil"
)

var outPath = flag.String("out", "", "result file")

type job struct {
	name string
	sc   *Scenario
}

func mk(d *Desc, mons func(s *Scenario, w *worker) []Monitor) *Scenario {
	s := &Scenario{D: d, NewMons: mons, axisOrd: map[int]int{}, axisDesc: map[int]*AxisDesc{}}
	s.Alpha = d.Alphabet()
	if len(s.Alpha) > 60 {
		panic("alphabet too large for the held-key bitmask")
	}
	ord := 0
	for i := range s.Alpha {
		if s.Alpha[i].IsAxis {
			s.axisOrd[i] = ord
			ord++
			for mi := range d.Mappings {
				for ai := range d.Mappings[mi].Axes {
					if d.Mappings[mi].Axes[ai].Name == s.Alpha[i].Name && s.axisDesc[i] == nil {
						s.axisDesc[i] = &d.Mappings[mi].Axes[ai]
					}
				}
			}
		}
	}
	if ord > 6 {
		panic("too many axes")
	}
	return s
}

func main() {
	prop := flag.String("prop", "", "property id")
	tier := flag.String("tier", "quick", "")
	jobIdx := flag.Int("job", -1, "job index (see -list)")
	list := flag.Bool("list", false, "print the job names and exit")
	workers := flag.Int("workers", runtime.NumCPU(), "")
	noReplay := flag.Bool("noreplay", false, "skip the real-loop replay of every state (debugging only)")
	grid := flag.String("grid", "", "run a bounded-exhaustive grid check instead of a BFS job: c04 | c05 | c06")
	shard := flag.Int("shard", 0, "")
	nshards := flag.Int("nshards", 1, "")
	prof := flag.String("cpuprofile", "", "")
	flag.Parse()
	if *prof != "" {
		f, _ := os.Create(*prof)
		pprof.StartCPUProfile(f)
		defer pprof.StopCPUProfile()
	}
	debug.SetGCPercent(1500)
	go func() {
		for range logger.Messages {
		}
	}()
	if *grid != "" {
		res := vutil.NewResult()
		func() {
			defer func() {
				if r := recover(); r != nil {
					res.Infra = fmt.Sprintf("panic in grid harness: %v\n%s", r, debug.Stack())
				}
			}()
			switch *grid {
			case "c04":
				gridC04(res, *tier, *shard, *nshards)
			case "c05":
				gridC05(res, *tier, *shard, *nshards)
			case "c06":
				gridC06(res, *tier, *shard, *nshards)
			}
		}()
		res.Write(*outPath)
		if res.Infra != "" {
			os.Exit(2)
		}
		return
	}
	checkDisconnect = *prop == "C01" // the disconnect clause belongs to C01; other properties only use the replay for conformance
	jobs := jobsFor(*prop, *tier)
	if *list {
		for i, j := range jobs {
			fmt.Printf("%d %s\n", i, j.name)
		}
		return
	}
	if *outPath == "" {
		fmt.Fprintln(os.Stderr, "need -out")
		os.Exit(2)
	}
	if *jobIdx < 0 || *jobIdx >= len(jobs) {
		vutil.Fail(*outPath, fmt.Sprintf("no such job %d for %s/%s", *jobIdx, *prop, *tier))
	}
	j := jobs[*jobIdx]
	res := vutil.NewResult()
	ex := &Explorer{S: j.sc, Res: res, doReplay: !*noReplay}
	func() {
		defer func() {
			if r := recover(); r != nil {
				res.Infra = fmt.Sprintf("panic in explorer: %v", r)
			}
		}()
		ex.Run(*workers)
	}()
	ex.stopAll.Store(true)
	res.Distinct(fmt.Sprintf("%s:%d", j.name, ex.nOutcomes.Load())) // placeholder, replaced by counters in vcheck
	res.Write(*outPath)
	if res.Infra != "" {
		pprof.StopCPUProfile()
		os.Exit(2)
	}
}
