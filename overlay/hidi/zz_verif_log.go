//go:build verif

package main

import "github.com/gethiox/HIDI/internal/pkg/logger"

func logMessagesForVerif() chan []byte { return logger.Messages }
