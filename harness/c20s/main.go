//go:build verif

// c20s: the two pure-function families (handler classification / grouping of internal/pkg/input and the note-name
// conversion of internal/pkg/midi/device/config) are called from several goroutines of the running application at once
// (device discovery classifies handlers while running devices classify theirs; configurations are re-read while devices
// play). Under the controlled scheduler: every schedule of 2-3 threads calling them concurrently, each result compared
// with the sequential result, plus the happens-before race detector on package-level state of the instrumented files.
package main

import (
	"flag"
	"fmt"
	"os"
	"runtime"
	"sort"
	"strings"
	"time"

	"github.com/gethiox/HIDI/internal/pkg/input"
	"github.com/gethiox/HIDI/internal/pkg/logger"
	"github.com/gethiox/HIDI/internal/pkg/midi/device/config"
	"github.com/gethiox/HIDI/internal/verif/vsched"
	"github.com/gethiox/HIDI/internal/verif/vutil"
	"github.com/holoplot/go-evdev"
)

type scenario struct {
	firstUse bool // lazily built state of the code under test: this process's very first execution is checked on its own
	name     string
	run      func()
	check    func(x *vsched.Execution) []vsched.Violation
}

var (
	kbd   = []evdev.EvType{evdev.EV_SYN, evdev.EV_KEY, evdev.EV_MSC, evdev.EV_LED, evdev.EV_REP}
	keys  = []evdev.EvType{evdev.EV_SYN, evdev.EV_KEY}
	pad   = []evdev.EvType{evdev.EV_SYN, evdev.EV_KEY, evdev.EV_ABS}
	padFF = []evdev.EvType{evdev.EV_SYN, evdev.EV_KEY, evdev.EV_ABS, evdev.EV_FF}
	odd   = []evdev.EvType{evdev.EV_SYN, evdev.EV_SW}
)

func info(i int, phys string, ts []evdev.EvType) input.DeviceInfo {
	return input.VerifDeviceInfo(fmt.Sprintf("event%d", 7000+i), fmt.Sprintf("H%d", i), phys, input.InputID{Bus: 3, Vendor: 1, Product: 2}, "", ts)
}

func canon(devs []input.Device) string {
	var out []string
	for _, d := range devs {
		var hs []string
		for _, h := range d.Handlers {
			hs = append(hs, h.DeviceInfo.Event())
		}
		sort.Strings(hs)
		out = append(out, fmt.Sprintf("%s:%s[%s]", d.PhysicalUUID(), d.DeviceType, strings.Join(hs, ",")))
	}
	sort.Strings(out)
	return strings.Join(out, " ")
}

func obsList(x *vsched.Execution) []string {
	var r []string
	for _, o := range x.Obs {
		r = append(r, fmt.Sprintf("%s=%v", o.Kind, o.Val))
	}
	sort.Strings(r)
	return r
}

// every thread's observation must equal what the same call returns when nothing else runs
func checker(want map[string]string) func(x *vsched.Execution) []vsched.Violation {
	return func(x *vsched.Execution) []vsched.Violation {
		var vs []vsched.Violation
		if x.Panic != "" {
			vs = append(vs, vsched.Violation{"concurrent-call-panics", strings.SplitN(x.Panic, ":", 2)[0], x.Panic})
		}
		if x.Deadlock || x.HorizonHit {
			vs = append(vs, vsched.Violation{"concurrent-call-blocks", strings.Join(x.Blocked, "+"), "threads blocked: " + strings.Join(x.Blocked, " | ")})
		}
		got := map[string]string{}
		for _, o := range x.Obs {
			got[o.Kind] = fmt.Sprint(o.Val)
		}
		for k, w := range want {
			if g, ok := got[k]; ok && g != w {
				vs = append(vs, vsched.Violation{"result-depends-on-concurrent-calls", k, fmt.Sprintf("%s returned %s while other threads were running, %s alone", k, g, w)})
			} else if !ok && x.Panic == "" && !x.Deadlock {
				vs = append(vs, vsched.Violation{"concurrent-call-blocks", k, k + " produced no result"})
			}
		}
		for _, r := range x.Races {
			f := strings.Fields(r)
			w := r
			if len(f) > 3 {
				w = f[3]
			}
			vs = append(vs, vsched.Violation{"data-race", w, "shared package-level state is accessed by concurrent calls without synchronisation: " + r})
		}
		return vs
	}
}

func discoveryScenario(name string, batch []input.DeviceInfo, running [][]input.DeviceInfo) scenario {
	want := map[string]string{"discovery": canon(input.Normalize(batch))}
	for i, hs := range running {
		var ts []string
		for _, h := range hs {
			h := h
			ts = append(ts, h.HandlerType().String())
		}
		want[fmt.Sprintf("device%d", i)] = strings.Join(ts, ",")
	}
	return scenario{name: name, check: checker(want), run: func() {
		vsched.Go("discovery", func() {
			vsched.Pause()
			vsched.Observe("discovery", canon(input.Normalize(batch)))
		})
		for i, hs := range running {
			i, hs := i, hs
			vsched.Go(fmt.Sprintf("device%d", i), func() {
				var ts []string
				for _, h := range hs {
					h := h
					vsched.Pause()
					ts = append(ts, h.HandlerType().String())
				}
				vsched.Observe(fmt.Sprintf("device%d", i), strings.Join(ts, ","))
			})
		}
	}}
}

// expected conversions are written out (not computed with the code under test: the first use in the process must be the concurrent one)
var noteWant = map[string]string{"C#4": "73/false", "g8": "127/false", "h3": "0/true", "c-2": "0/false", "B7": "119/false", "e#3": "0/true", "x": "0/true", "a#-1": "22/false", "127": "0/true", "C9": "0/true"}

func notesScenario(name string, lists [][]string) scenario {
	conv := func(ss []string) string {
		var out []string
		for _, s := range ss {
			n, err := config.StringToNote(s)
			out = append(out, fmt.Sprintf("%d/%v", n, err != nil))
		}
		return strings.Join(out, ",")
	}
	want := map[string]string{}
	for i, l := range lists {
		var w []string
		for _, n := range l {
			w = append(w, noteWant[n])
		}
		want[fmt.Sprintf("reader%d", i)] = strings.Join(w, ",")
	}
	return scenario{name: name, firstUse: true, check: checker(want), run: func() {
		for i, l := range lists {
			i, l := i, l
			vsched.Go(fmt.Sprintf("reader%d", i), func() {
				vsched.Pause()
				vsched.Observe(fmt.Sprintf("reader%d", i), conv(l))
			})
		}
	}}
}

func scenarios(tier string) []scenario {
	a, b := "usb-1/input0", "usb-2/input0"
	s := []scenario{
		discoveryScenario("discovery: keyboard group with a keys-only handler while a running gamepad classifies its handlers",
			[]input.DeviceInfo{info(0, a, kbd), info(1, a, keys)}, [][]input.DeviceInfo{{info(2, b, pad), info(3, b, padFF)}}),
		discoveryScenario("discovery: gamepad group while a running keyboard classifies its handlers",
			[]input.DeviceInfo{info(0, a, pad), info(1, a, odd)}, [][]input.DeviceInfo{{info(2, b, keys), info(3, b, kbd)}}),
		discoveryScenario("discovery: two groups while two running devices classify their handlers",
			[]input.DeviceInfo{info(0, a, keys), info(1, b, padFF), info(4, a, odd)}, [][]input.DeviceInfo{{info(2, b, pad)}, {info(3, a, keys), info(5, a, kbd)}}),
		notesScenario("notes: two configuration readers convert names at the same time (first use)", [][]string{{"C#4", "g8", "h3"}, {"c-2", "B7", "e#3"}}),
	}
	if tier == "thorough" {
		s = append(s, notesScenario("notes: three readers", [][]string{{"C#4", "g8"}, {"c-2", "x"}, {"a#-1", "127", "C9"}}))
		s = append(s, discoveryScenario("discovery: two discovery-sized batches of every class", []input.DeviceInfo{info(0, a, kbd), info(1, a, keys), info(2, b, pad), info(3, b, padFF), info(4, "", odd)},
			[][]input.DeviceInfo{{info(5, b, odd), info(6, b, pad)}, {info(7, a, padFF), info(8, a, keys)}}))
	}
	return s
}

func main() {
	out := flag.String("out", "", "")
	shard := flag.Int("shard", 0, "")
	nshards := flag.Int("nshards", 1, "")
	tier := flag.String("tier", "quick", "")
	bound := flag.Int("bound", 2, "preemption bound")
	only := flag.Int("scenario", -1, "")
	replay := flag.String("replay", "", "scenario-index:comma-separated choices")
	budget := flag.Duration("budget", 40*time.Second, "")
	list := flag.Bool("list", false, "list scenarios")
	flag.Parse()
	runtime.GOMAXPROCS(1)
	go func() {
		for range logger.Messages {
		}
	}()
	res := vutil.NewResult()
	scs := scenarios(*tier)
	ropt := vsched.Options{Races: true, MaxPoints: 2000}
	if *list {
		for i, sc := range scs {
			fmt.Printf("%d %s\n", i, sc.name)
		}
		return
	}
	if *replay != "" {
		var si int
		var cs string
		fmt.Sscanf(*replay, "%d:%s", &si, &cs)
		var choices []int
		for _, p := range strings.Split(cs, ",") {
			var c int
			if _, err := fmt.Sscanf(p, "%d", &c); err == nil {
				choices = append(choices, c)
			}
		}
		ropt.Trace = true
		x := vsched.Run(scs[si].run, choices, ropt)
		fmt.Println("scenario:", scs[si].name)
		for i, t := range x.Trace {
			fmt.Printf("%3d %s\n", i, t)
		}
		fmt.Println("observations:", obsList(x), "races:", x.Races, "panic:", x.Panic)
		for _, v := range scs[si].check(x) {
			fmt.Println("VIOLATION", v.Class, v.What)
		}
		return
	}
	for si, sc := range scs {
		if *only >= 0 && si != *only {
			continue
		}
		outcomes := map[string]bool{}
		if sc.firstUse {
			// package state of the code under test cannot be reset between executions: the first execution of this (fresh)
			// process is the only one that sees the first use, so it is judged here, before the exploration proper
			x := vsched.Run(sc.run, nil, ropt)
			res.Add("first_use_executions", 1)
			for _, v := range sc.check(x) {
				res.Violate(v.Class, v.Where, fmt.Sprintf("[%s] (first use in the process) %s", sc.name, v.What), map[string]interface{}{
					"scenario": sc.name, "scenario_index": si, "observations": obsList(x), "replay": fmt.Sprintf("c20s -replay %d:", si)})
			}
		}
		rep := vsched.Explore(sc.run, vsched.ExploreOpts{Bound: *bound, Shard: *shard, NShards: *nshards, Deadline: time.Now().Add(*budget), Prune: false, Run: ropt,
			Check: sc.check,
			Outcome: func(x *vsched.Execution) string {
				outcomes[strings.Join(obsList(x), ";")] = true
				return ""
			}})
		res.Add("evaluations", rep.Executions)
		res.Add("executions", rep.Executions)
		res.Add("transitions", rep.Points)
		res.Add("states", int64(len(rep.StateHashes)))
		res.Add("replay_checks", int64(rep.ReplayChecks))
		res.Add("scenarios", 1)
		for o := range outcomes {
			res.Distinct(fmt.Sprintf("%d:%s", si, o))
		}
		if rep.Capped {
			res.Exhaustive = false
			res.Note(fmt.Sprintf("scenario %q: time budget reached in shard %d after %d executions", sc.name, *shard, rep.Executions))
		}
		if *shard == 0 {
			res.Sample(map[string]interface{}{"scenario": sc.name, "preemption_bound": *bound, "executions_in_shard_0": rep.Executions, "distinct_outcomes": len(outcomes)})
		}
		for _, f := range rep.Violations {
			res.Violate(f.V.Class, f.V.Where, fmt.Sprintf("[%s] %s", sc.name, f.V.What), map[string]interface{}{
				"scenario": sc.name, "scenario_index": si, "choices": f.Choices, "schedule": f.Trace, "observations": f.Obs,
				"replay": fmt.Sprintf("c20s -replay %d:%s", si, strings.Trim(strings.ReplaceAll(fmt.Sprint(f.Choices), " ", ","), "[]")),
			})
		}
	}
	res.Write(*out)
	_ = os.Stdout
}
