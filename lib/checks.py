"""Per-property check drivers. Each builds its harness from $VERIF_REPO's current
working tree (overlay build, tag verif), runs it sharded over the cores, merges the
shard results and hands them to vlib.finish (evidence + verdict)."""
import os
import tempfile

import vlib

REGISTRY = {}


def check(pid):
    def deco(f):
        REGISTRY[pid] = f
        return f
    return deco


def sharded(binary, tier, nshards, extra=(), workdir=None):
    d = tempfile.mkdtemp(prefix="vres_", dir=vlib.BUILD)
    jobs = []
    for i in range(nshards):
        res = os.path.join(d, "r%d.json" % i)
        jobs.append(([binary, "-out", res, "-shard", str(i), "-nshards", str(nshards), "-tier", tier] + list(extra), res))
    try:
        return vlib.run_jobs(jobs)
    finally:
        import shutil
        shutil.rmtree(d, ignore_errors=True)


def generic_cov(m, rule, extra=None):
    c = m["counters"]
    cov = {
        "evaluations": int(c.get("evaluations", 0)),
        "distinct_nontrivial": len(m["distinct_keys"]),
        "rule": rule,
    }
    for k, v in c.items():
        if k not in cov and not k.startswith("violations:"):
            cov[k] = int(v)
    if extra:
        cov.update(extra)
    return cov


# ------------------------------------------------------------------ C11
@check("C11")
def c11(prop, tier, t0):
    binary, bt = vlib.build("c11")
    m = vlib.merge(sharded(binary, tier, vlib.NCPU))
    cov = generic_cov(m, "every string of length <=4 over [a-zA-Z0-9#- ] (thorough: + length <=5 over 29 symbols incl. "
                         "NUL/newline/non-ASCII, length <=7 over 12 symbols) fed to config.StringToNote and compared with a "
                         "reference acceptor/valuation written from the statement; all 128 numbers rendered and parsed back. "
                         "distinct_nontrivial = distinct accepted strings (case-folded).",
                      {"build_s": round(bt, 1)})
    return vlib.finish(prop, tier, "exploration", m, cov, [
        "strings longer than the stated bounds are not enumerated",
        "the spelling '-0' for octave 0 is treated as don't-care (accepting it as octave 0 or rejecting it are both fine)",
    ], t0)
