//go:build verif

package vsched

import (
	"fmt"
	"os"
	"strings"
	"time"
)

// Stateless depth-first exploration of the choice tree with a preemption bound
// (Musuvathi & Qadeer, iterative context bounding). Executions always run to completion.

type Violation struct {
	Class string
	Where string
	What  string
}

type Report struct {
	Executions   int64
	Points       int64
	MaxPoints    int
	Outcomes     map[string]int64 // distinct terminal observations
	StateHashes  map[uint64]bool  // distinct global states seen at scheduling points
	Violations   []Found
	Capped       bool
	Pruned       int64
	Bound        int
	ReplayChecks int
}

type Found struct {
	V       Violation
	Choices []int
	Trace   []string
	Obs     []string
}

type ExploreOpts struct {
	Run   Options
	Bound int // preemption bound; <0: unbounded
	// ChoicesOnly: explore only the alternatives of explicit Choose points of the running thread (every
	// data / operation choice) on the default schedule; no alternative thread orders at all
	ChoicesOnly bool
	Shard       int
	NShards     int
	MaxExec     int64
	Deadline    time.Time
	Outcome     func(*Execution) string // terminal observation signature
	Check       func(*Execution) []Violation
	StopAtFirst bool
	Prune       bool // prune on the global-state fingerprint (sound for deterministic threads, see stateKey)
}

func threadOfOption(o string) int {
	var id int
	fmt.Sscanf(o, "T%d:", &id)
	return id
}

func isPreemption(p Point, alt int) bool {
	return p.RunningEnabled && int(p.OptThreads[alt]) != p.Running
}

func Explore(scenario func(), eo ExploreOpts) *Report {
	rep := &Report{Outcomes: map[string]int64{}, StateHashes: map[uint64]bool{}, Bound: eo.Bound}
	if eo.NShards <= 0 {
		eo.NShards = 1
	}
	perClass := map[string]int{}
	seen := map[uint64]int{}
	var visit func(prefix []int, depth int, top *int)
	runOne := func(prefix []int) *Execution {
		x := Run(scenario, prefix, eo.Run)
		rep.Executions++
		rep.Points += int64(len(x.Points))
		if len(x.Points) > rep.MaxPoints {
			rep.MaxPoints = len(x.Points)
		}
		if x.Divergence != "" {
			panic("VERIF-INFRA: " + x.Divergence + " prefix=" + fmt.Sprint(prefix))
		}
		if strings.Contains(x.Panic, "VERIF-INFRA") {
			panic(x.Panic) // the machinery's own failure inside a scheduled thread: never a verdict on the code under test
		}
		for i := range x.Points {
			rep.StateHashes[x.Points[i].Key] = true
		}
		if eo.Outcome != nil {
			rep.Outcomes[eo.Outcome(x)]++
		}
		var vs []Violation
		if eo.Check != nil {
			vs = eo.Check(x)
		}
		for _, v := range vs {
			k := v.Class + "|" + v.Where
			perClass[k]++
			if perClass[k] > 2 {
				continue
			}
			// determinism self-check: the violating schedule must reproduce exactly
			topt := eo.Run
			topt.Trace = true
			y := Run(scenario, x.Choices, topt)
			rep.ReplayChecks++
			if !sameKeys(x, y) {
				panic("VERIF-INFRA: a violating schedule did not replay identically: nondeterminism outside the scheduler")
			}
			x = y
			var obs []string
			for _, o := range x.Obs {
				obs = append(obs, fmt.Sprintf("[%d %s] %s: %v", o.At, o.Thread, o.Kind, o.Val))
			}
			rep.Violations = append(rep.Violations, Found{V: v, Choices: x.Choices, Trace: x.Trace, Obs: obs})
		}
		return x
	}
	visit = func(prefix []int, depth int, top *int) {
		if rep.Capped {
			return
		}
		if (eo.MaxExec > 0 && rep.Executions >= eo.MaxExec) || (!eo.Deadline.IsZero() && time.Now().After(eo.Deadline)) {
			rep.Capped = true
			return
		}
		if eo.StopAtFirst && len(rep.Violations) > 0 {
			return
		}
		x := runOne(prefix)
		if os.Getenv("VSDEBUG") != "" {
			n := 0
			for _, p := range x.Points {
				n += len(p.OptThreads) - 1
			}
			fmt.Fprintf(os.Stderr, "visit prefix=%v points=%d alts=%d\n", prefix, len(x.Points), n)
		}
		cost := 0
		for i := 0; i < len(prefix); i++ {
			if isPreemption(x.Points[i], x.Points[i].Chosen) {
				cost++
			}
		}
		for i := len(prefix); i < len(x.Points); i++ {
			p := x.Points[i]
			if eo.Prune {
				rem := 1 << 30
				if eo.Bound >= 0 {
					rem = eo.Bound - cost
				}
				if prev, ok := seen[p.Key]; ok && prev >= rem {
					rep.Pruned++
					break // this state was already expanded with at least the same remaining budget: identical futures
				}
				seen[p.Key] = rem
			}
			for alt := 1; alt < len(p.OptThreads); alt++ {
				c := cost
				if isPreemption(p, alt) {
					c++
				}
				if eo.Bound >= 0 && c > eo.Bound {
					continue
				}
				if eo.ChoicesOnly && !(p.RunningEnabled && int(p.OptThreads[alt]) == p.Running) {
					continue
				}
				if depth == 0 { // shard on the top-level branches
					*top++
					if *top%eo.NShards != eo.Shard {
						continue
					}
				}
				np := append(append([]int{}, x.Choices[:i]...), alt)
				visit(np, depth+1, top)
			}
			// the default choice at point i may itself be a preemption only if option 0 is not the running thread,
			// which cannot happen when the running thread is enabled (it is listed first)
		}
	}
	top := 0
	if eo.Shard == 0 {
		// replay self-check on the root execution
		a := Run(scenario, nil, eo.Run)
		b := Run(scenario, a.Choices, eo.Run)
		rep.ReplayChecks++
		if !sameKeys(a, b) {
			panic("VERIF-INFRA: the default schedule did not replay identically: nondeterminism outside the scheduler")
		}
	}
	// every shard walks the root execution (cheap) but only shard 0 counts/checks it
	rootOnly := eo.Shard != 0
	if rootOnly {
		saveCheck, saveOutcome := eo.Check, eo.Outcome
		eo.Check, eo.Outcome = nil, nil
		x := Run(scenario, nil, eo.Run)
		eo.Check, eo.Outcome = saveCheck, saveOutcome
		cost := 0
		for i := 0; i < len(x.Points); i++ {
			p := x.Points[i]
			for alt := 1; alt < len(p.OptThreads); alt++ {
				c := cost
				if isPreemption(p, alt) {
					c++
				}
				if eo.Bound >= 0 && c > eo.Bound {
					continue
				}
				if eo.ChoicesOnly && !(p.RunningEnabled && int(p.OptThreads[alt]) == p.Running) {
					continue
				}
				top++
				if top%eo.NShards != eo.Shard {
					continue
				}
				visit(append(append([]int{}, x.Choices[:i]...), alt), 1, &top)
			}
		}
		return rep
	}
	visit(nil, 0, &top)
	return rep
}

var _ = strings.Join

// hashState: a fingerprint of the global state at scheduling point i of an execution
// (per-thread pending operation labels as rendered in the option list + the point index is NOT included).
func hashState(x *Execution, i int) uint64 {
	var h uint64 = 1469598103934665603
	for _, o := range x.Points[i].Options {
		for j := 0; j < len(o); j++ {
			h ^= uint64(o[j])
			h *= 1099511628211
		}
		h ^= 0xff
		h *= 1099511628211
	}
	return h
}

func sameKeys(a, b *Execution) bool {
	if len(a.Points) != len(b.Points) {
		return false
	}
	for i := range a.Points {
		if a.Points[i].Key != b.Points[i].Key || a.Points[i].Chosen != b.Points[i].Chosen || len(a.Points[i].OptThreads) != len(b.Points[i].OptThreads) {
			return false
		}
	}
	return true
}
