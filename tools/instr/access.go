package main

import "go/ast"

// annotateAccesses inserts vsched.R / vsched.W calls for accesses to mutable Device fields (T9).
// Implemented in a later step; until then a no-op.
func (r *rewriter) annotateAccesses(f *ast.File) {}
