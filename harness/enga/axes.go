//go:build verif

package main

import (
	"fmt"
	"math/big"
	"sort"
	"strings"
)

type bigRat = big.Rat

// ---------------------------------------------------------------- scenarios

func keyEmuAxes(big bool) []AxisDesc {
	ax := []AxisDesc{
		{Name: "ABS_HAT0X", Type: "key", Note: 60, NoteNeg: 62, Off: 15, OffNeg: 3, Min: -1, Max: 1, Deadzone: 0, Pos: []int32{-1, 0, 1}},
		// flipped signed stick with only a positive note: -64/128 = exactly half travel, +-63 in the hysteresis band
		{Name: "ABS_RY", Type: "key", Note: 64, NoteNeg: -1, Flip: true, Min: -128, Max: 127, Deadzone: 0,
			Pos: []int32{-128, -64, -63, -62, 0, 62, 63, 64, 127}},
	}
	// one-sided (unsigned) stick, re-centred by key emulation
	ax = append(ax, AxisDesc{Name: "ABS_Z", Type: "key", Note: 70, NoteNeg: 50, Min: 0, Max: 255, Deadzone: 0,
		Pos: []int32{0, 63, 64, 65, 127, 189, 191, 192, 255}})
	if big {
		// 16-bit stick: neighbouring positions a fraction of a MIDI step apart on both sides of the 50 % / 49 % thresholds
		ax = append(ax, AxisDesc{Name: "ABS_RX", Type: "key", Note: 66, NoteNeg: 54, Min: -32768, Max: 32767, Deadzone: 0,
			Pos: []int32{-32768, -16400, -16300, -16040, 0, 16040, 16200, 16300, 16400, 32767}})
	}
	return ax
}

// keyEmuScenarios: withMapping adds a second mapping WITHOUT the axes + panic (C01 alphabet);
// without it the alphabet is the one of C08 (octave/semitone/channel actions).
func keyEmuScenarios(big, withMapping bool) []*Desc {
	var out []*Desc
	variants := []string{"hat", "stick", "unsigned"} // one axis per scenario: each runs to its fixpoint
	if big {
		variants = append(variants, "stick16")
	}
	for _, variant := range variants {
		d := base("keyemu-"+variant, "interrupt")
		all := keyEmuAxes(big)
		var ax []AxisDesc
		switch variant {
		case "hat":
			ax = all[:1]
		case "stick":
			ax = all[1:2]
		case "unsigned":
			ax = all[2:3]
		default:
			ax = all[3:4]
		}
		d.Mappings = []MapDesc{{Name: "M0", Keys: km{K1: {60, 0}}, Axes: ax}}
		if withMapping {
			d.Name = "keyemu-map-" + variant
			d.Mappings = append(d.Mappings, MapDesc{Name: "M1", Keys: km{K1: {61, 0}}})
			// a third mapping emulates keys with the SAME axis, but with other notes and with the opposite choice of
			// directions (a direction that has a note in M0 has none here and vice versa): what was started under one
			// mapping must still be released when the stick returns under the other
			m2 := MapDesc{Name: "M2", Keys: km{K1: {62, 0}}}
			for _, a := range ax {
				b := a
				b.Note = a.Note + 7
				if a.NoteNeg >= 0 {
					b.NoteNeg = -1
				} else {
					b.NoteNeg = a.Note - 7
				}
				m2.Axes = append(m2.Axes, b)
			}
			d.Mappings = append(d.Mappings, m2)
			acts(d, MU, "mapping_up", MD, "mapping_down", OU, "octave_up", PA, "panic", LE, "cc_learning")
			d.OctLo, d.OctHi = 0, 1
		} else {
			acts(d, OU, "octave_up", OD, "octave_down", SU, "semitone_up", CU, "channel_up")
			d.OctLo, d.OctHi = -1, 1
			d.SemLo, d.SemHi = 0, 1
			d.ChSet = []int{0, 1}
			if variant == "hat" {
				// transposition that pushes the configured notes out of the MIDI range
				d2 := *d
				d2.Name = "keyemu-hat-edge"
				d2.Actions = map[string]string{OU: "octave_up", OD: "octave_down"}
				d2.Mappings = []MapDesc{{Name: "M0", Keys: km{K1: {60, 0}}, Axes: []AxisDesc{
					{Name: "ABS_HAT0X", Type: "key", Note: 120, NoteNeg: 5, Min: -1, Max: 1, Deadzone: 0, Pos: []int32{-1, 0, 1}}}}}
				out = append(out, &d2)
			}
		}
		out = append(out, d)
	}
	return out
}

// keyEmuCoincideScenario: transposition between the two presses makes both directions play the SAME pitch (60 and 62, two
// semitones down in between), with direct jumps between the directions
func keyEmuCoincideScenario(mode string) *Desc {
	d := base("keyemu-hat-same-pitch", mode)
	d.Mappings = []MapDesc{{Name: "M0", Keys: km{K1: {40, 0}},
		Axes: []AxisDesc{{Name: "ABS_HAT0X", Type: "key", Note: 60, NoteNeg: 62, Min: -1, Max: 1, Deadzone: 0, Pos: []int32{-1, 0, 1}}}}}
	acts(d, SD, "semitone_down", SU, "semitone_up")
	d.SemLo, d.SemHi = -2, 0
	return d
}

// keyEmuBecomesCCScenario: the axis emulates keys in one mapping and is a controller in the next; the stick is held across
// the switch and comes back to centre there, with CC-learning on or off (its gate looks at controller axes)
func keyEmuBecomesCCScenario(mode string) *Desc {
	d := base("keyemu-becomes-cc", mode)
	pos := []int32{-1, 0, 1}
	d.Mappings = []MapDesc{
		{Name: "M0", Keys: km{K1: {40, 0}}, Axes: []AxisDesc{{Name: "ABS_HAT0X", Type: "key", Note: 60, NoteNeg: 62, Min: -1, Max: 1, Deadzone: 0, Pos: pos}}},
		{Name: "M1", Keys: km{K1: {41, 0}}, Axes: []AxisDesc{{Name: "ABS_HAT0X", Type: "cc", CC: 20, CCNeg: 21, Min: -1, Max: 1, Deadzone: 0, Pos: pos}}},
		{Name: "M2", Keys: km{K1: {42, 0}}, Axes: []AxisDesc{{Name: "ABS_HAT0X", Type: "pitch_bend", CCNeg: -1, Min: -1, Max: 1, Deadzone: 0, Pos: pos}}},
	}
	acts(d, MU, "mapping_up", MD, "mapping_down", LE, "cc_learning")
	return d
}

// keyEmuSubScenario: two sub-handlers of one device deliver the same axis code, both emulate keys with it
func keyEmuSubScenario() *Desc {
	d := base("keyemu-subhandlers", "interrupt")
	d.Mappings = []MapDesc{{Name: "M0", Keys: km{K1: {60, 0}},
		Axes:    []AxisDesc{{Name: "ABS_HAT0X", Type: "key", Note: 60, NoteNeg: 62, Min: -1, Max: 1, Deadzone: 0, Pos: []int32{-1, 0, 1}}},
		SubAxes: map[string][]AxisDesc{"Touchpad": {{Name: "ABS_HAT0X", Type: "key", Note: 70, NoteNeg: 72, Min: -1, Max: 1, Deadzone: 0, Pos: []int32{-1, 0, 1}}}},
	}}
	acts(d, OU, "octave_up")
	d.OctLo, d.OctHi = 0, 1
	return d
}

func ccScenarios(big bool) []*Desc {
	d := base("bidir-cc", "interrupt")
	ax := []AxisDesc{
		{Name: "ABS_X", Type: "cc", CC: 1, CCNeg: 2, Off: 0, OffNeg: 1, Min: -128, Max: 127, Deadzone: 0.1,
			Pos: []int32{-128, -100, -64, -12, 0, 12, 64, 100, 127}},
		{Name: "ABS_Z", Type: "cc", CC: 3, CCNeg: 4, DZCenter: true, Min: 0, Max: 255, Deadzone: 0.1,
			Pos: []int32{0, 30, 110, 127, 128, 140, 230, 255}},
	}
	if big {
		ax = append(ax, AxisDesc{Name: "ABS_RX", Type: "cc", CC: 5, CCNeg: 6, Off: 2, OffNeg: 0, Flip: true, Min: -128, Max: 127, Deadzone: 0,
			Pos: []int32{-128, -65, -64, -1, 0, 1, 63, 64, 127}})
	}
	d.Mappings = []MapDesc{{Name: "M0", Keys: km{K1: {60, 0}}, Axes: ax}}
	acts(d, LE, "cc_learning")
	d2 := base("bidir-cc-exact-half", "interrupt")
	d2.Mappings = []MapDesc{{Name: "M0", Keys: km{K1: {60, 0}}, Axes: []AxisDesc{
		{Name: "ABS_RX", Type: "cc", CC: 5, CCNeg: 6, Off: 2, OffNeg: 0, Flip: true, Min: -128, Max: 127, Deadzone: 0,
			Pos: []int32{-128, -65, -64, -1, 0, 1, 63, 64, 65, 127}}}}}
	acts(d2, LE, "cc_learning")
	// two sub-handlers of one device deliver the same axis code (e.g. a gamepad's sticks and its motion sensors),
	// both bidirectional with distinct controller numbers
	d3 := base("bidir-cc-subhandlers", "interrupt")
	subPos := []int32{-128, -40, 0, 40, 127}
	d3.Mappings = []MapDesc{{Name: "M0", Keys: km{K1: {60, 0}},
		Axes:    []AxisDesc{{Name: "ABS_RX", Type: "cc", CC: 20, CCNeg: 21, Min: -128, Max: 127, Deadzone: 0.1, Pos: subPos}},
		SubAxes: map[string][]AxisDesc{"Touchpad": {{Name: "ABS_RX", Type: "cc", CC: 22, CCNeg: 23, Off: 1, OffNeg: 1, Min: -128, Max: 127, Deadzone: 0.1, Pos: subPos}}},
	}}
	acts(d3, LE, "cc_learning")
	// CC-learning switched by an axis (a hat bound to the action) instead of a key
	d4 := base("bidir-cc-learning-by-axis", "interrupt")
	d4.Mappings = []MapDesc{{Name: "M0", Keys: km{K1: {60, 0}}, Axes: []AxisDesc{
		{Name: "ABS_X", Type: "cc", CC: 1, CCNeg: 2, Off: 0, OffNeg: 1, Min: -128, Max: 127, Deadzone: 0.1, Pos: []int32{-128, -64, -12, 0, 12, 64, 127}},
		{Name: "ABS_HAT0Y", Type: "action", Action: "cc_learning", Min: -1, Max: 1, Deadzone: 0, Pos: []int32{-1, 0, 1}},
	}}}
	return []*Desc{d, d2, d3, d4}
}

// ---------------------------------------------------------------- C08 monitor

type keyEmu struct {
	snd map[string][2]int // "<axis>+" / "<axis>-" -> (ch,pitch) of the NoteOn that was sent
}

func newKeyEmu() *keyEmu { return &keyEmu{snd: map[string][2]int{}} }
func (k *keyEmu) Clone(*worker) Monitor {
	n := newKeyEmu()
	for a, b := range k.snd {
		n.snd[a] = b
	}
	return n
}
func (k *keyEmu) Key(b *strings.Builder) { fmt.Fprintf(b, "ke%v", k.snd) }

func (k *keyEmu) Step(c *StepCtx) {
	sym := c.Sym
	if !sym.IsAxis {
		// keys: note keys are not part of this oracle; actions must not touch emulated notes
		if sym.Action != "" && len(c.Msgs) > 0 {
			c.viol("keyemu-action-emits", fmt.Sprintf("%s emitted %v", c.Ev.String(c.S.Alpha), semList(c.Msgs)))
		}
		return
	}
	a := c.S.axisDesc[c.Ev.Sym]
	if a == nil || a.Type != "key" {
		return
	}
	v := KeyEmuValue(a, c.Ev.Val)
	half, lim := rat(1, 2), rat(49, 100)
	posOn := v.Cmp(half) >= 0
	negOn := v.Cmp(new(bigRat).Neg(half)) <= 0
	rest := new(bigRat).Abs(v).Cmp(lim) < 0
	band := !posOn && !negOn && !rest
	pk, nk := c.Sym.Name+"+", c.Sym.Name+"-"
	var mustOn, mayOff, mustOff []string // as semantic strings
	onStr := func(q [2]int) string { return fmt.Sprintf("On ch%d/%d", q[0]+1, q[1]) }
	offStr := func(q [2]int) string { return fmt.Sprintf("Off ch%d/%d", q[0]+1, q[1]) }
	next := map[string][2]int{}
	for kk, vv := range k.snd {
		next[kk] = vv
	}
	turnOn := func(key string, note int) {
		if _, s := k.snd[key]; s || note < 0 {
			return
		}
		off := a.Off
		if strings.HasSuffix(key, "-") {
			off = a.OffNeg
		}
		ch, p, ok := c.Pre.Transpose(note, off)
		if !ok {
			return
		}
		mustOn = append(mustOn, onStr([2]int{ch, p}))
		next[key] = [2]int{ch, p}
	}
	turnOff := func(key string, must bool) {
		if q, s := k.snd[key]; s {
			if must {
				mustOff = append(mustOff, offStr(q))
				delete(next, key)
			} else {
				mayOff = append(mayOff, offStr(q))
			}
		}
	}
	switch {
	case posOn:
		turnOn(pk, a.Note)
		turnOff(nk, true)
	case negOn:
		turnOn(nk, a.NoteNeg)
		turnOff(pk, true)
	case rest:
		turnOff(pk, true)
		turnOff(nk, true)
	case band:
		// hysteresis band (49-50 %) of ONE direction: that direction's note may stay or go; the opposite
		// direction's deflection is far below 49 %, its note must be off
		turnOff(pk, v.Sign() < 0)
		turnOff(nk, v.Sign() > 0)
	}
	got := semList(c.Msgs)
	need := append(append([]string{}, mustOn...), mustOff...)
	// multiset comparison: got must contain all of need, the remainder must be within mayOff
	rem := append([]string{}, got...)
	for _, n := range need {
		found := false
		for i, g := range rem {
			if g == n {
				rem = append(rem[:i], rem[i+1:]...)
				found = true
				break
			}
		}
		if !found {
			c.viol("keyemu-lifecycle", fmt.Sprintf("%s (position %s on the -1..1 scale, sounding before: %v): emitted %v, expected %v (+ optionally %v)", c.Ev.String(c.S.Alpha), v.FloatString(3), k.snd, got, need, mayOff))
			return
		}
	}
	for _, g := range rem {
		okk := false
		for _, m := range mayOff {
			if m == g {
				okk = true
				for kk, q := range k.snd {
					if offStr(q) == g {
						delete(next, kk)
					}
				}
			}
		}
		if !okk {
			c.viol("keyemu-lifecycle", fmt.Sprintf("%s (position %s on the -1..1 scale, sounding before: %v): emitted %v, expected %v (+ optionally %v)", c.Ev.String(c.S.Alpha), v.FloatString(3), k.snd, got, need, mayOff))
			return
		}
	}
	// the messages of the step in their order, as the receiver hears them: every direction that must sound after the
	// step really sounds (a Note Off for the direction being left must not cut a Note On of the same pitch sent before it)
	// (only the two directions of THIS axis: pitches shared with other axes or keys are a collision matter, C03)
	sim := map[[2]int]bool{}
	for dk, q := range k.snd {
		if dk == pk || dk == nk {
			sim[q] = true
		}
	}
	for _, m := range c.Msgs {
		switch pm := parse(m); pm.kind {
		case kOn:
			sim[[2]int{pm.ch, pm.a}] = true
		case kOff:
			delete(sim, [2]int{pm.ch, pm.a})
		}
	}
	for dirKey, q := range next {
		if (dirKey == pk || dirKey == nk) && !sim[q] {
			c.viol("keyemu-note-cut", fmt.Sprintf("%s: %s must sound ch%d/%d after this step, but the messages %v leave it silent at the receiver (sounding before: %v)", c.Ev.String(c.S.Alpha), dirKey, q[0]+1, q[1], got, k.snd))
			return
		}
	}
	k.snd = next
	_, p := k.snd[pk]
	_, n := k.snd[nk]
	if p && n {
		c.viol("keyemu-both-directions", fmt.Sprintf("after %s both directions of %s sound", c.Ev.String(c.S.Alpha), a.Name))
	}
}

// ---------------------------------------------------------------- C07 monitor

type ccMon struct {
	val   map[[2]int]int  // (ch, controller) -> last value at the receiver
	stale map[string]bool // axis -> a learning-suppressed move happened since its last transmission (receiver legitimately behind)
}

func newCCMon() *ccMon { return &ccMon{val: map[[2]int]int{}, stale: map[string]bool{}} }
func (m *ccMon) Clone(*worker) Monitor {
	n := newCCMon()
	for a, b := range m.val {
		n.val[a] = b
	}
	for a, b := range m.stale {
		n.stale[a] = b
	}
	return n
}
func (m *ccMon) Key(b *strings.Builder) {
	ks := make([]string, 0, len(m.val))
	for k, v := range m.val {
		ks = append(ks, fmt.Sprintf("%d/%d=%d", k[0], k[1], v))
	}
	sort.Strings(ks)
	st := make([]string, 0, len(m.stale))
	for k, v := range m.stale {
		if v {
			st = append(st, k)
		}
	}
	sort.Strings(st)
	fmt.Fprintf(b, "cc%v%v", ks, st)
}

func (m *ccMon) Step(c *StepCtx) {
	d := c.S.D
	before := map[[2]int]int{}
	for k, v := range m.val {
		before[k] = v
	}
	explicitZero := map[[2]int]bool{}
	for _, msg := range c.Msgs {
		pm := parse(msg)
		if pm.kind == kCC {
			m.val[[2]int{pm.ch, pm.a}] = pm.b
			if pm.b == 0 {
				explicitZero[[2]int{pm.ch, pm.a}] = true
			}
		}
	}
	// (A) for every bidirectional axis: at most one side non-zero at the receiver
	allAxes := append([]AxisDesc{}, d.Mappings[0].Axes...)
	for _, sub := range sortedKeys(d.Mappings[0].SubAxes) {
		allAxes = append(allAxes, d.Mappings[0].SubAxes[sub]...)
	}
	for i := range allAxes {
		a := &allAxes[i]
		if a.Type != "cc" || a.CCNeg < 0 {
			continue
		}
		pk := [2]int{(c.Post.Ch + a.Off) % 16, a.CC}
		nk := [2]int{(c.Post.Ch + a.OffNeg) % 16, a.CCNeg}
		if m.val[pk] != 0 && m.val[nk] != 0 {
			c.viol("bidir-both-sides-nonzero", fmt.Sprintf("after %s controllers %d (=%d) and %d (=%d) of %s are both non-zero at the receiver", c.Ev.String(c.S.Alpha), a.CC, m.val[pk], a.CCNeg, m.val[nk], a.Name))
			return
		}
	}
	if !c.Sym.IsAxis {
		if len(c.Msgs) > 0 && c.Sym.Action != "" {
			c.viol("cc-action-emits", fmt.Sprintf("%s emitted %d message(s)", c.Ev.String(c.S.Alpha), len(c.Msgs)))
		}
		return
	}
	a := c.S.axisDesc[c.Ev.Sym]
	if a == nil || a.Type != "cc" || a.CCNeg < 0 {
		return
	}
	v, _ := Shaped(a, c.Ev.Val)
	mag := new(bigRat).Abs(v)
	pk := [2]int{(c.Pre.Ch + a.Off) % 16, a.CC}
	nk := [2]int{(c.Pre.Ch + a.OffNeg) % 16, a.CCNeg}
	if c.Pre.Learning && mag.Cmp(rat(1, 2)) <= 0 {
		if len(c.Msgs) > 0 {
			c.viol("learning-transmits-small-deflection", fmt.Sprintf("CC-learning held, %s is a deflection of %s (<= half travel) but %v was transmitted", c.Ev.String(c.S.Alpha), v.FloatString(3), msgStrings(c.Msgs)))
		}
		m.stale[c.Sym.Name] = true
		return
	}
	if len(c.Msgs) == 0 {
		// nothing transmitted: only legitimate as duplicate suppression, i.e. when the receiver already shows this position
		// (unless a learning-suppressed move left the receiver behind on purpose)
		if m.stale[c.Sym.Name] {
			return
		}
		exactM := new(bigRat).Mul(mag, rat(127, 1))
		fm, _ := exactM.Float64()
		okv := func(x int) bool { return float64(x) >= fm-1.0000001 && float64(x) <= fm+1.0000001 }
		curK, othK := pk, nk
		if v.Sign() < 0 {
			curK, othK = nk, pk
		}
		if (v.Sign() != 0 && (!okv(m.val[curK]) || m.val[othK] != 0)) || (v.Sign() == 0 && (m.val[pk] != 0 || m.val[nk] != 0)) {
			c.viol("position-change-not-transmitted", fmt.Sprintf("%s moves %s to %s but nothing was transmitted although the receiver shows cc%d=%d cc%d=%d", c.Ev.String(c.S.Alpha), a.Name, v.FloatString(3), a.CC, m.val[pk], a.CCNeg, m.val[nk]))
		}
		return
	}
	m.stale[c.Sym.Name] = false
	// (B) side + value
	exact := new(bigRat).Mul(mag, rat(127, 1))
	f, _ := exact.Float64()
	near := func(x int) bool { return float64(x) >= f-1.0000001 && float64(x) <= f+1.0000001 }
	var cur, other [2]int
	switch v.Sign() {
	case 1:
		cur, other = pk, nk
	case -1:
		cur, other = nk, pk
	default:
		if m.val[pk] != 0 || m.val[nk] != 0 {
			c.viol("bidir-centre-not-zero", fmt.Sprintf("%s is the exact centre, receiver has cc%d=%d cc%d=%d", c.Ev.String(c.S.Alpha), a.CC, m.val[pk], a.CCNeg, m.val[nk]))
		}
		goto crossing
	}
	if m.val[other] != 0 {
		c.viol("bidir-wrong-side", fmt.Sprintf("%s deflects %s to %s, yet the controller of the other side (%d) is %d at the receiver", c.Ev.String(c.S.Alpha), a.Name, v.FloatString(3), other[1], m.val[other]))
		return
	}
	if !near(m.val[cur]) {
		c.viol("bidir-value", fmt.Sprintf("%s deflects %s to %s: controller %d is %d at the receiver, exact value %.3f", c.Ev.String(c.S.Alpha), a.Name, v.FloatString(3), cur[1], m.val[cur], f))
		return
	}
crossing:
	// (C) the side being left must get an explicit 0 if it was non-zero
	for _, side := range [][2]int{pk, nk} {
		if before[side] != 0 && m.val[side] == 0 && !explicitZero[side] {
			c.viol("bidir-no-explicit-zero", fmt.Sprintf("controller %d was %d and is considered 0 without an explicit 0 message", side[1], before[side]))
		}
		if before[side] != 0 && side != cur && v.Sign() != 0 && !explicitZero[side] {
			c.viol("bidir-no-explicit-zero", fmt.Sprintf("%s leaves the side of controller %d (was %d at the receiver) without sending it an explicit 0", c.Ev.String(c.S.Alpha), side[1], before[side]))
		}
	}
}

// ---------------------------------------------------------------- C06 (state part): transfer function across mapping switches

// xferMon: receiver values per (channel, controller); after every transmitted axis step the value must be within one
// step of the exact value computed with the deadzone / options of the CURRENT mapping.
type xferMon struct {
	val map[[2]int]int
}

func newXferMon() *xferMon { return &xferMon{val: map[[2]int]int{}} }
func (m *xferMon) Clone(*worker) Monitor {
	n := newXferMon()
	for a, b := range m.val {
		n.val[a] = b
	}
	return n
}
func (m *xferMon) Key(b *strings.Builder) {
	ks := make([]string, 0, len(m.val))
	for k, v := range m.val {
		ks = append(ks, fmt.Sprintf("%d/%d=%d", k[0], k[1], v))
	}
	sort.Strings(ks)
	fmt.Fprintf(b, "xf%v", ks)
}

func axisInMapping(d *Desc, mp int, name string) *AxisDesc {
	for i := range d.Mappings[mp].Axes {
		if d.Mappings[mp].Axes[i].Name == name {
			return &d.Mappings[mp].Axes[i]
		}
	}
	return nil
}

func (m *xferMon) Step(c *StepCtx) {
	for _, msg := range c.Msgs {
		if pm := parse(msg); pm.kind == kCC {
			m.val[[2]int{pm.ch, pm.a}] = pm.b
		}
	}
	if !c.Sym.IsAxis {
		if c.Sym.Action != "" && len(c.Msgs) > 0 {
			c.viol("xfer-action-emits", fmt.Sprintf("%s emitted %d message(s)", c.Ev.String(c.S.Alpha), len(c.Msgs)))
		}
		return
	}
	a := axisInMapping(c.S.D, c.Pre.Map, c.Sym.Name)
	if a == nil {
		if len(c.Msgs) > 0 {
			c.viol("xfer-unmapped-axis-emits", fmt.Sprintf("%s is not mapped in mapping %s but %v was transmitted", c.Sym.Name, c.S.D.Mappings[c.Pre.Map].Name, msgStrings(c.Msgs)))
		}
		return
	}
	if a.Type != "cc" || len(c.Msgs) == 0 {
		return
	}
	tgt := "cc"
	if a.CCNeg >= 0 {
		tgt = "bidir"
	}
	for _, e := range c06Expect(a, c06Variant{Target: tgt}, c.Ev.Val, c.Pre.Ch) {
		var ch, cc int
		fmt.Sscanf(e.key, "cc/%d/%d", &ch, &cc)
		got := m.val[[2]int{ch, cc}]
		fl := new(big.Int).Div(e.exact.Num(), e.exact.Denom()).Int64()
		hi := fl + 1
		if !e.exact.IsInt() {
			hi++
		}
		if int64(got) < fl-1 || int64(got) > hi {
			f, _ := e.exact.Float64()
			c.viol("transfer-wrong-after-state-change", fmt.Sprintf("%s in mapping %s (deadzone %v): controller %d is %d at the receiver, exact value %.3f", c.Ev.String(c.S.Alpha), c.S.D.Mappings[c.Pre.Map].Name, a.Deadzone, cc, got, f))
			return
		}
	}
}

// xferScenarios: the same axes with DIFFERENT deadzones / options in three mappings, mapping up/down (incl. the pair reset)
func xferScenarios(big bool) []*Desc {
	d := base("transfer-across-mappings", "interrupt")
	pos := []int32{-128, -90, -40, 0, 40, 90, 127}
	upos := []int32{0, 60, 128, 200, 255}
	mk := func(dz1, dz2 float64, flip bool) []AxisDesc {
		return []AxisDesc{
			{Name: "ABS_X", Type: "cc", CC: 1, CCNeg: 2, Min: -128, Max: 127, Deadzone: dz1, Flip: flip, Pos: pos},
			{Name: "ABS_Z", Type: "cc", CC: 5, CCNeg: -1, Min: 0, Max: 255, Deadzone: dz2, Pos: upos},
		}
	}
	d.Mappings = []MapDesc{
		{Name: "M0", Keys: km{K1: {60, 0}}, Axes: mk(0.1, 0.05, false)},
		{Name: "M1", Keys: km{K1: {61, 0}}, Axes: mk(0.5, 0.4, true)},
		{Name: "M2", Keys: km{K1: {62, 0}}, Axes: mk(0.25, 0, false)[:1]},
	}
	acts(d, MU, "mapping_up", MD, "mapping_down")
	return []*Desc{d}
}
