"""C18 — start-up upkeep. Engine D: initial-tree enumeration + crash-point enumeration of the REAL
cmd/hidi binary (verif init hook runs updateHIDIConfiguration in the cwd) with strace fault
injection (SIGKILL delivered before the k-th call of a system call) and torn writes."""
import os
import re
import shutil
import subprocess
import tempfile
import time
from concurrent.futures import ProcessPoolExecutor

import vlib

TRACE_CALLS = "openat,open,creat,mkdirat,mkdir,write,pwrite64,renameat,renameat2,rename,unlinkat,unlink,ftruncate,truncate,fchmodat,chmod,linkat,symlinkat"
FACT = "factory/"


def read_template():
    root = os.path.join(vlib.REPO, "cmd/hidi/hidi-config")
    files, dirs = {}, set()
    for dp, dn, fn in os.walk(root):
        rel = os.path.relpath(dp, root)
        if rel != ".":
            dirs.add(rel)
        for f in fn:
            p = os.path.normpath(os.path.join(rel, f))
            with open(os.path.join(dp, f), "rb") as fh:
                files[p] = fh.read()
    return files, dirs


def snapshot(root):
    files, dirs = {}, set()
    cfg = os.path.join(root, "hidi-config")
    if not os.path.isdir(cfg):
        return None
    for dp, dn, fn in os.walk(cfg):
        rel = os.path.relpath(dp, cfg)
        if rel != ".":
            dirs.add(rel)
        for f in fn:
            p = os.path.normpath(os.path.join(rel, f))
            with open(os.path.join(dp, f), "rb") as fh:
                files[p] = fh.read()
    return files, dirs


def materialise(root, tree):
    """tree: None (directory absent) or (files dict, dirs set)."""
    if tree is None:
        return
    files, dirs = tree
    cfg = os.path.join(root, "hidi-config")
    os.makedirs(cfg)
    for d in sorted(dirs):
        os.makedirs(os.path.join(cfg, d), exist_ok=True)
    for p, data in files.items():
        os.makedirs(os.path.dirname(os.path.join(cfg, p)), exist_ok=True)
        with open(os.path.join(cfg, p), "wb") as fh:
            fh.write(data)


class Ctx:
    def __init__(self, hook, tmpl, base):
        self.hook, self.tmpl, self.base = hook, tmpl, base
        self.n = 0
        self.runs = 0

    def workdir(self):
        self.n += 1
        d = os.path.join(self.base, "w%d_%d" % (os.getpid(), self.n))
        os.makedirs(d)
        return d


def run_hook(ctx, cwd, inject=None, trace=None):
    env = dict(os.environ, HIDI_VERIF="upkeep")
    cmd = [ctx.hook]
    if inject or trace:
        cmd = ["strace", "-f", "-qq"]
        if trace:
            cmd += ["-y", "-o", trace, "-e", "trace=" + TRACE_CALLS]
        else:
            cmd += ["-o", "/dev/null", "-e", "trace=" + inject[0]]
        if inject:
            cmd += ["-e", "inject=%s:signal=SIGKILL:when=%d" % inject]
        cmd += [ctx.hook]
    p = subprocess.run(cmd, cwd=cwd, env=env, capture_output=True, text=True, timeout=120)
    ctx.runs += 1
    return p


def factory_ok(tmpl, snap):
    """every template factory file present and equal"""
    bad = []
    if snap is None:
        return ["hidi-config missing"]
    files, _ = snap
    for p, data in tmpl[0].items():
        if p.startswith(FACT):
            if p not in files:
                bad.append("factory file %r missing" % p)
            elif files[p] != data:
                bad.append("factory file %r differs from its template (%d vs %d bytes)" % (p, len(files[p]), len(data)))
    return bad


def untouched(tmpl, before, after, blacklist="device blacklist.txt"):
    """user files, hidi.toml, existing blacklist, extra files byte-identical; nothing unexpected created"""
    bad = []
    if before is None:
        return bad
    bf, _ = before
    af, _ = after if after else ({}, set())
    for p, data in bf.items():
        protected = p.startswith("user/") or p == "hidi.toml" or p == blacklist or p not in tmpl[0]
        if protected:
            if p not in af:
                bad.append("%r was deleted" % p)
            elif af[p] != data:
                bad.append("%r was modified (%d -> %d bytes)" % (p, len(data), len(af[p])))
    for p in af:
        if p not in bf and not (p.startswith(FACT) and p in tmpl[0]) and p != blacklist:
            bad.append("unexpected new file %r" % p)
    if blacklist not in bf and (blacklist not in af or af[blacklist] != tmpl[0][blacklist]):
        bad.append("missing blacklist was not created from the template")
    return bad


def check_tree(ctx, name, tree, crash=False, torn_step=1):
    """returns (violations, stats)"""
    viols = []
    stats = {"runs": 0, "crash_points": 0, "torn_states": 0}
    tmpl = ctx.tmpl
    w = ctx.workdir()
    try:
        materialise(w, tree)
        before = snapshot(w)
        trace = os.path.join(w, "trace.txt") if crash else None
        p = run_hook(ctx, w, trace=trace)
        stats["runs"] += 1
        after = snapshot(w)
        out = (p.stdout + p.stderr).strip()[-300:]

        def v(cls, where, what, extra=None):
            d = {"initial_tree": name, "hook_output": out}
            if extra:
                d.update(extra)
            viols.append({"class": cls, "where": where, "what": "initial tree '%s': %s" % (name, what), "detail": d})
        if "PANIC" in p.stdout:
            v("upkeep-panics", name.split(":")[0], "updateHIDIConfiguration panicked: " + out)
            return viols, stats
        if tree is None:
            if after is None or after[0] != tmpl[0] or not tmpl[1] <= after[1]:
                missing = sorted(set(tmpl[0]) - set(after[0] if after else {}))
                v("fresh-tree-incomplete", "absent", "the directory did not exist; the complete template tree must be created (missing/different: %s)" % missing[:5])
        else:
            for b in factory_ok(tmpl, after):
                v("factory-not-restored", name.split(":")[0], b)
            for b in untouched(tmpl, before, after):
                v("user-data-touched", name.split(":")[0], b)
        # idempotence
        p2 = run_hook(ctx, w)
        stats["runs"] += 1
        again = snapshot(w)
        if again != after:
            v("second-run-changes-something", name.split(":")[0], "running upkeep again changed the tree")
        if not crash:
            return viols, stats
        # ---- crash points
        counts = {}
        writes = []  # (k, path) for write calls to files under hidi-config
        main_pid = None
        with open(trace) as fh:
            for line in fh:
                m = re.match(r"^(\d+)\s+(\w+)\((.*)", line)
                if not m:
                    continue
                pid, call, rest = m.group(1), m.group(2), m.group(3)
                if main_pid is None:
                    main_pid = pid
                if pid != main_pid:
                    continue
                counts[call] = counts.get(call, 0) + 1
                if call in ("write", "pwrite64"):
                    fm = re.match(r"^\d+<([^>]*)>", rest)
                    if fm and "hidi-config" in fm.group(1):
                        writes.append((call, counts[call], fm.group(1)))
        os.remove(trace)
        points = [(c, k) for c, n in sorted(counts.items()) for k in range(1, n + 1)]
        for call, k in points:
            w2 = ctx.workdir()
            try:
                materialise(w2, tree)
                b2 = snapshot(w2)
                pc = run_hook(ctx, w2, inject=(call, k))
                stats["runs"] += 1
                if pc.returncode not in (-9, 137):
                    continue  # the k-th call did not happen on a traced thread in this run: no crash occurred
                stats["crash_points"] += 1
                mid = snapshot(w2)
                states = [("crash before %s #%d" % (call, k), None)]
                for wc, wk, path in writes:
                    if wc == call and wk == k:
                        rel = path.split("hidi-config/", 1)[1]
                        data = tmpl[0].get(rel, b"")
                        ls = sorted(set(list(range(0, len(data) + 1, torn_step)) + [1, len(data) - 1, len(data)]))
                        for L in ls:
                            if 0 < L <= len(data):
                                states.append(("crash inside %s #%d: %d of %d bytes of %s on disk" % (call, k, L, len(data), rel), (rel, data[:L])))
                for label, torn in states:
                    w3 = w2
                    if torn is not None:
                        w3 = ctx.workdir()
                        materialise(w3, mid)
                        with open(os.path.join(w3, "hidi-config", torn[0]), "wb") as fh:
                            fh.write(torn[1])
                        stats["torn_states"] += 1
                    pr = run_hook(ctx, w3)
                    stats["runs"] += 1
                    rec = snapshot(w3)
                    ro = (pr.stdout + pr.stderr).strip()[-200:]
                    for b in factory_ok(tmpl, rec):
                        viols.append({"class": "factory-not-restored-after-crash", "where": label.split(":")[0].split(" #")[0],
                                      "what": "initial tree '%s', %s, then a complete run: %s" % (name, label, b),
                                      "detail": {"initial_tree": name, "crash": label, "recovery_output": ro}})
                        break
                    if b2 is not None:
                        for b in untouched(tmpl, b2, rec):
                            if "blacklist was not created" in b:
                                continue
                            viols.append({"class": "user-data-touched-after-crash", "where": label.split(":")[0].split(" #")[0],
                                          "what": "initial tree '%s', %s, then a complete run: %s" % (name, label, b),
                                          "detail": {"initial_tree": name, "crash": label, "recovery_output": ro}})
                            break
                    if w3 is not w2:
                        shutil.rmtree(w3, ignore_errors=True)
            finally:
                shutil.rmtree(w2, ignore_errors=True)
        return viols, stats
    finally:
        shutil.rmtree(w, ignore_errors=True)


def trees(tmpl, tier):
    """yield (name, tree, crash?)"""
    tfiles, tdirs = tmpl
    user_extra = {"user/keyboard/mine.toml": b"# my keyboard\ncollision_mode = \"off\"\n", "user/gamepad/pad.toml": b"x = 1\n",
                  "user/keyboard/0_default.toml": b"# named like a factory file\n", "user/notes.txt": b"hello"}
    custom = dict(tfiles)
    custom.update(user_extra)
    custom["hidi.toml"] = b"[HIDI]\npool_rate = 99 # mine\n"
    custom["device blacklist.txt"] = b"# my blacklist\nBus: 0x0003, Vendor: 0x1234, Product: 0x0001, Version: 0x0111\n"
    custom["factory/keyboard/extra_mine.toml"] = b"# extra file in factory/\n"
    custom["factory/notes.txt"] = b"extra"
    base = (custom, set(tdirs))
    facts = sorted(p for p in tfiles if p.startswith(FACT))
    big = tier == "thorough"

    def mod(changes, drop=(), dropdirs=()):
        f = dict(base[0])
        for p in drop:
            f.pop(p, None)
        f.update(changes)
        d = set(base[1])
        for dd in dropdirs:
            d = {x for x in d if not (x == dd or x.startswith(dd + "/"))}
            f = {p: v for p, v in f.items() if not p.startswith(dd + "/")}
        return (f, d)

    yield "absent", None, True
    yield "template-intact", (dict(tfiles), set(tdirs)), True
    yield "custom-intact", base, True
    for p in facts:
        data = tfiles[p]
        yield "file-absent:%s" % p, mod({}, drop=[p]), True
        yield "file-empty:%s" % p, mod({p: b""}), True
        yield "file-longer:%s" % p, mod({p: data + b"\n# appended by the user\n"}), True
        yield "file-prefix-junk:%s" % p, mod({p: b"# edited\n" + data}), big
        step = 1 if (len(data) <= 3072 and big) else (16 if len(data) <= 3072 else 64)
        cuts = set(range(1, len(data), step))
        for m in re.finditer(b"\n", data):
            for dlt in (-2, -1, 0, 1, 2):
                if 0 < m.start() + dlt < len(data) and (big or m.start() % 5 == 0):
                    cuts.add(m.start() + dlt)
        for n in sorted(cuts):
            yield "file-truncated-at-%d:%s" % (n, p), mod({p: data[:n]}), False
        for pos in ([0, len(data) // 2, len(data) - 1] if not big else range(0, len(data), max(1, len(data) // 40))):
            if len(data) > 0:
                b = bytearray(data)
                b[pos] ^= 0x20
                yield "file-byte-flipped-at-%d:%s" % (pos, p), mod({p: bytes(b)}), False
        yield "file-same-length-different:%s" % p, mod({p: bytes(len(data))}), False
    for dd in ("factory", "factory/gamepad", "factory/keyboard"):
        yield "dir-absent:%s" % dd, mod({}, dropdirs=[dd]), True
    yield "blacklist-absent", mod({}, drop=["device blacklist.txt"]), True
    yield "blacklist-empty", mod({"device blacklist.txt": b""}), False
    yield "hiditoml-absent", mod({}, drop=["hidi.toml"]), False
    yield "hiditoml-template", mod({"hidi.toml": tfiles["hidi.toml"]}), False
    yield "user-empty", mod({}, dropdirs=["user"]), True
    yield "only-root-dir", ({}, set()), True
    # pairs: two factory files at once
    kinds = {"absent": lambda p: None, "half": lambda p: tfiles[p][:len(tfiles[p]) // 2], "longer": lambda p: tfiles[p] + b"zz"}
    for i in range(len(facts)):
        for j in range(i + 1, len(facts)):
            for ka, fa in kinds.items():
                for kb, fb in kinds.items():
                    ch, drop = {}, []
                    for p, val in ((facts[i], fa(facts[i])), (facts[j], fb(facts[j]))):
                        if val is None:
                            drop.append(p)
                        else:
                            ch[p] = val
                    yield "pair:%s=%s,%s=%s" % (facts[i], ka, facts[j], kb), mod(ch, drop=drop), big and ka == "longer" and kb == "absent"


_CACHE = {}


def _one(arg):
    hook, base, tier, idx, torn_step = arg
    if "jobs" not in _CACHE:
        _CACHE["tmpl"] = read_template()
        _CACHE["jobs"] = list(trees(_CACHE["tmpl"], tier))
    name, tree, crash = _CACHE["jobs"][idx]
    c = Ctx(hook, _CACHE["tmpl"], os.path.join(base, "j%d" % idx))
    os.makedirs(c.base, exist_ok=True)
    try:
        return check_tree(c, name, tree, crash=crash, torn_step=torn_step)
    finally:
        shutil.rmtree(c.base, ignore_errors=True)


def run(prop, tier, t0):
    hook, bt = vlib.build("hidi", pkgpath="./cmd/hidi", out=os.path.join(vlib.BUILD, "bin", "hidi_hook"))
    tmpl = read_template()
    base = tempfile.mkdtemp(prefix="verif_c18_")
    ctx = Ctx(hook, tmpl, base)
    allv, tot = [], {"runs": 0, "crash_points": 0, "torn_states": 0}
    jobs = list(trees(tmpl, tier))
    torn_step = 1 if tier == "thorough" else 97
    # probe: does strace injection work here?
    try:
        args = [(hook, base, tier, i, torn_step) for i in range(len(jobs))]
        with ProcessPoolExecutor(max_workers=vlib.NCPU) as ex:
            results = list(ex.map(_one, args, chunksize=8))
    finally:
        shutil.rmtree(base, ignore_errors=True)
    ncrash_trees = 0
    for (name, tree, crash), (viols, st) in zip(jobs, results):
        allv.extend(viols)
        for k in tot:
            tot[k] += st[k]
        if crash:
            ncrash_trees += 1
    if tot["crash_points"] == 0:
        raise vlib.Infra("strace fault injection produced no crash at all (ptrace unavailable?)")
    m = {"violations": allv, "samples": [j[0] for j in jobs[:3]] + [j[0] for j in jobs[40:43]], "exhaustive": True, "notes": [], "distinct_keys": set(), "counters": {}}
    cov = {
        "evaluations": tot["runs"], "distinct_nontrivial": len(jobs) + tot["crash_points"] + tot["torn_states"],
        "rule": "initial trees: directory absent / intact / each of the 6 factory files absent, empty, truncated at many bytes, one byte flipped, same-length-different, longer than the template; factory directories absent; blacklist absent/empty; "
                "hidi.toml absent/template/custom; user files incl. one named like a factory file; extra files in factory/; pairs of damaged files. Each tree: one real run of updateHIDIConfiguration (cmd/hidi binary, verif init hook) + a second run "
                "(idempotence). Crash enumeration on the marked trees: strace records the file system calls of the run, then one run per (system call, k) with SIGKILL injected before the k-th call, plus torn writes (the file about to be written "
                "holds a prefix of the data), each followed by a complete recovery run. evaluations = process runs; distinct_nontrivial = initial trees + crash points + torn states.",
        "initial_trees": len(jobs), "trees_with_crash_enumeration": ncrash_trees, "crash_points": tot["crash_points"], "torn_states": tot["torn_states"], "build_s": round(bt, 1),
    }
    return vlib.finish(prop, tier, "fault_enumeration", m, cov, [
        "crash = process death at a system-call boundary or inside one write (prefix of the data); completed writes are not reordered (no fsync / power-loss model)",
        "type confusion (a directory where a file is expected, symlinks inside the tree) and read-only files are not generated",
        "after an interrupted FIRST generation only the factory clause is required of later runs (the statement's crash clause); hidi.toml / user/ are then not re-created by the code and this is not judged",
    ], t0)
