//go:build verif

package main

import (
	"math/big"
	"strings"
)

// Reference model of the device's *specified* behaviour, written from the property
// statements (C04 arithmetic / action rules, C06 transfer function). Unbounded ints.

var actionBits = map[string]uint32{
	"mapping_up": 1 << 0, "mapping_down": 1 << 1, "octave_up": 1 << 2, "octave_down": 1 << 3,
	"semitone_up": 1 << 4, "semitone_down": 1 << 5, "channel_up": 1 << 6, "channel_down": 1 << 7,
	"multinote": 1 << 8, "panic": 1 << 9, "cc_learning": 1 << 10, "exit": 1 << 11,
}

var pairs = [][2]string{{"mapping_up", "mapping_down"}, {"octave_up", "octave_down"}, {"semitone_up", "semitone_down"}, {"channel_up", "channel_down"}}

type Ref struct {
	Oct, Sem, Ch, Map int // Ch 0-based
	Learning          bool
	HeldAct           uint32
}

func NewRef(d *Desc) Ref {
	r := Ref{Oct: d.Octave, Sem: d.Semitone, Ch: d.Channel - 1}
	for i, m := range d.Mappings {
		if m.Name == d.DefMap {
			r.Map = i
		}
	}
	return r
}

func partner(a string) string {
	for _, p := range pairs {
		if p[0] == a {
			return p[1]
		}
		if p[1] == a {
			return p[0]
		}
	}
	return ""
}

func (r *Ref) pairHeld() bool {
	for _, p := range pairs {
		if r.HeldAct&actionBits[p[0]] != 0 && r.HeldAct&actionBits[p[1]] != 0 {
			return true
		}
	}
	return false
}

// ActionPress applies the C04 rules for pressing an action key.
func (r *Ref) ActionPress(d *Desc, a string) {
	r.HeldAct |= actionBits[a]
	if a == "panic" {
		return // panic changes no parameter and is never swallowed
	}
	// a complete up/down pair is held (this press completes it, or - outside C04's side condition, only offered by
	// scenarios with FreeActions - it is a further action on top of one): the pair's parameter is (again) at its neutral
	// value and the press has no effect of its own. With several pairs held the first of mapping, octave, semitone, channel.
	for _, pr := range pairs {
		if r.HeldAct&actionBits[pr[0]] != 0 && r.HeldAct&actionBits[pr[1]] != 0 {
			switch pr[0] {
			case "octave_up":
				r.Oct = 0
			case "semitone_up":
				r.Sem = 0
			case "channel_up":
				r.Ch = 0
			case "mapping_up":
				r.Map = 0
			}
			return
		}
	}
	switch a {
	case "octave_up":
		r.Oct++
	case "octave_down":
		r.Oct--
	case "semitone_up":
		r.Sem++
	case "semitone_down":
		r.Sem--
	case "channel_up":
		if r.Ch < 15 {
			r.Ch++
		}
	case "channel_down":
		if r.Ch > 0 {
			r.Ch--
		}
	case "mapping_up":
		if r.Map < len(d.Mappings)-1 {
			r.Map++
		}
	case "mapping_down":
		if r.Map > 0 {
			r.Map--
		}
	case "cc_learning":
		r.Learning = true
	}
}

func (r *Ref) ActionRelease(d *Desc, a string) {
	r.HeldAct &^= actionBits[a]
	if a == "cc_learning" {
		r.Learning = false
	}
}

// Transpose: the (0-based channel, pitch) a note with the given base/offset sounds at, ok=false if out of 0..127.
func (r *Ref) Transpose(base, off int) (ch, pitch int, ok bool) {
	pitch = base + 12*r.Oct + r.Sem
	ch = ((r.Ch+off)%16 + 16) % 16
	return ch, pitch, pitch >= 0 && pitch <= 127
}

// KeyPair: what pressing note key k produces in the current mapping.
func (r *Ref) KeyPair(d *Desc, k string) (ch, pitch int, ok bool) {
	kn, mapped := d.Mappings[r.Map].Keys[k]
	if i := strings.Index(k, ":"); i >= 0 { // "<sub-handler>:<key>"
		kn, mapped = d.Mappings[r.Map].SubKeys[k[:i]][k[i+1:]]
	}
	if !mapped {
		return 0, 0, false
	}
	return r.Transpose(kn.Note, kn.Offset)
}

// Offer: may the driver deliver this key event in the current reference state?
// (bounds of the explored domain + the C04 side condition on action pairs)
func (r *Ref) Offer(d *Desc, s Sym, val int32) bool {
	if s.Action == "" || val != 1 {
		return true
	}
	if r.pairHeld() && s.Action != "panic" && !d.FreeActions {
		return false // no third action while a complete pair is held (C04's side condition); panic may be injected at every point (C13)
	}
	p := partner(s.Action)
	if p != "" && r.HeldAct&actionBits[p] != 0 {
		return true // completes a pair: reset, always inside the domain... unless the neutral value is outside
	}
	switch s.Action {
	case "octave_up":
		return r.Oct+1 <= d.OctHi
	case "octave_down":
		return r.Oct-1 >= d.OctLo
	case "semitone_up":
		return r.Sem+1 <= d.SemHi
	case "semitone_down":
		return r.Sem-1 >= d.SemLo
	case "channel_up":
		return r.Ch == 15 || d.chAllowed(r.Ch+1)
	case "channel_down":
		return r.Ch == 0 || d.chAllowed(r.Ch-1)
	}
	return true
}

func (d *Desc) chAllowed(c int) bool {
	if len(d.ChSet) == 0 {
		return true
	}
	for _, x := range d.ChSet {
		if x == c {
			return true
		}
	}
	return false
}

// ---- axis transfer function (exact rationals)

func rat(a, b int64) *big.Rat { return big.NewRat(a, b) }

// Shaped returns the deadzone-shaped, flipped position in [-1,1] (or [0,1] for a one-sided
// axis), and whether the axis is two-sided after optional centring.
func Shaped(a *AxisDesc, raw int32) (*big.Rat, bool) {
	var v *big.Rat
	abs := func(x int32) int64 {
		if x < 0 {
			return -int64(x)
		}
		return int64(x)
	}
	if raw < 0 {
		v = rat(int64(raw), abs(a.Min))
	} else {
		v = rat(int64(raw), abs(a.Max))
	}
	twoSided := a.Min < 0
	if a.DZCenter {
		v = new(big.Rat).Sub(new(big.Rat).Mul(v, rat(2, 1)), rat(1, 1))
		twoSided = true
	}
	dz := new(big.Rat).SetFloat64(a.Deadzone)
	one := rat(1, 1)
	mag := new(big.Rat).Abs(v)
	if mag.Cmp(dz) < 0 || (mag.Sign() == 0) {
		v = rat(0, 1)
	} else {
		m := new(big.Rat).Quo(new(big.Rat).Sub(mag, dz), new(big.Rat).Sub(one, dz))
		if v.Sign() < 0 {
			m.Neg(m)
		}
		v = m
	}
	if a.Flip {
		if twoSided {
			v = new(big.Rat).Neg(v)
		} else {
			v = new(big.Rat).Sub(one, v)
		}
	}
	return v, twoSided
}

// KeyEmuValue: the position on the -1..1 scale used by key emulation (one-sided axes are re-centred).
func KeyEmuValue(a *AxisDesc, raw int32) *big.Rat {
	v, two := Shaped(a, raw)
	if !two {
		v = new(big.Rat).Sub(new(big.Rat).Mul(v, rat(2, 1)), rat(1, 1))
	}
	return v
}
