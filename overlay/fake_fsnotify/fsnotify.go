// Package fsnotify: verification-only in-memory stand-in for github.com/fsnotify/fsnotify v1.5.1
// (mapped over the module-cache package with `go build -overlay` for the C19 schedule exploration).
// It has the exported surface HIDI uses. It knows nothing about the scheduler: the harness installs
// hooks. Real-library behaviour is validated separately (c19conf, real fsnotify + inotify).
package fsnotify

import "errors"

type Op uint32

const (
	Create Op = 1 << iota
	Write
	Remove
	Rename
	Chmod
)

func (op Op) String() string {
	s := ""
	for _, x := range []struct {
		o Op
		n string
	}{{Create, "CREATE"}, {Write, "WRITE"}, {Remove, "REMOVE"}, {Rename, "RENAME"}, {Chmod, "CHMOD"}} {
		if op&x.o != 0 {
			if s != "" {
				s += "|"
			}
			s += x.n
		}
	}
	return s
}

type Event struct {
	Name string
	Op   Op
}

func (e Event) String() string { return e.Name + ": " + e.Op.String() }

// ErrEventOverflow is reported on Errors when the kernel queue overflowed.
var ErrEventOverflow = errors.New("fsnotify queue overflow")

type Watcher struct {
	Events chan Event
	Errors chan error
	Done   chan struct{} // closed by Close (the real library's internal 'done')
	Added  []string
	closed bool
}

// Hooks installed by the harness.
var (
	VerifNewWatcher func() (*Watcher, error)
	VerifClose      func(w *Watcher) // must close w.Done under the scheduler
)

func NewWatcher() (*Watcher, error) {
	if VerifNewWatcher == nil {
		return nil, errors.New("fake fsnotify: no harness installed")
	}
	return VerifNewWatcher()
}

func (w *Watcher) Add(name string) error {
	w.Added = append(w.Added, name)
	return nil
}

func (w *Watcher) Remove(name string) error { return nil }

func (w *Watcher) Close() error {
	if w.closed {
		return nil
	}
	w.closed = true
	if VerifClose != nil {
		VerifClose(w)
	}
	return nil
}
