#!/bin/sh
# Build every harness once from /repo's working tree (warms the Go build cache). Offline.
cd "$(dirname "$0")" || exit 1
export GOFLAGS=-mod=mod GOPROXY=off GOSUMDB=off GOTOOLCHAIN=local
mkdir -p build evidence replays
python3 - <<'PY'
import sys, os
sys.path.insert(0, "lib")
import vlib
ov = vlib.make_overlay("default")
hroot = os.path.join(vlib.VERIF, "harness")
ok = True
import checks
for h in sorted(checks.ENGB):
    try:
        _, t = checks.engb_build(h)
        print("instrumented + built %s in %.1fs" % (h, t))
    except vlib.Infra as e:
        ok = False
        print("BUILD FAILED", h, e)
for d in sorted(os.listdir(hroot)):
    p = os.path.join(hroot, d)
    if d in checks.ENGB:
        continue
    if os.path.isdir(p) and any(open(os.path.join(p, f)).read().find("package main") >= 0 for f in os.listdir(p) if f.endswith(".go")):
        try:
            _, t = vlib.build(d, overlay=ov)
            print("built %s in %.1fs" % (d, t))
        except vlib.Infra as e:
            ok = False
            print("BUILD FAILED", d, e)
try:
    _, t = vlib.build("hidi", pkgpath="./cmd/hidi", out=os.path.join(vlib.BUILD, "bin", "hidi_hook"), overlay=ov)
    print("built cmd/hidi hook binary in %.1fs" % t)
except vlib.Infra as e:
    ok = False
    print("BUILD FAILED cmd/hidi", e)
sys.exit(0 if ok else 1)
PY
