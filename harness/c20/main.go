//go:build verif

// C20: device discovery grouping. All multisets of <= 4 handlers over the capability
// classes of HandlerType x 3 physical locations, in EVERY permutation of the discovery
// slice, through the real input.Normalize (handlers cannot be opened: /dev/input absent).
package main

import (
	"flag"
	"fmt"
	"sort"
	"strings"

	"github.com/gethiox/HIDI/internal/pkg/input"
	"github.com/gethiox/HIDI/internal/pkg/logger"
	"github.com/gethiox/HIDI/internal/verif/vutil"
	"github.com/holoplot/go-evdev"
)

type class struct {
	name  string
	types []evdev.EvType
}

var classes = []class{
	{"std-kbd", []evdev.EvType{evdev.EV_SYN, evdev.EV_KEY, evdev.EV_MSC, evdev.EV_LED, evdev.EV_REP}},
	{"std-kbd-rel-abs", []evdev.EvType{evdev.EV_SYN, evdev.EV_KEY, evdev.EV_REL, evdev.EV_ABS, evdev.EV_MSC, evdev.EV_LED, evdev.EV_REP}},
	{"nkro", []evdev.EvType{evdev.EV_SYN, evdev.EV_KEY, evdev.EV_MSC, evdev.EV_REP}},
	{"mouse", []evdev.EvType{evdev.EV_SYN, evdev.EV_KEY, evdev.EV_REL, evdev.EV_MSC}},
	{"system", []evdev.EvType{evdev.EV_SYN, evdev.EV_KEY, evdev.EV_MSC}},
	{"multimedia", []evdev.EvType{evdev.EV_SYN, evdev.EV_KEY, evdev.EV_REL, evdev.EV_ABS, evdev.EV_MSC}},
	{"joystick-ff", []evdev.EvType{evdev.EV_SYN, evdev.EV_KEY, evdev.EV_ABS, evdev.EV_FF}},
	{"joystick-abs", []evdev.EvType{evdev.EV_SYN, evdev.EV_KEY, evdev.EV_ABS}},
	{"unknown", []evdev.EvType{evdev.EV_SYN, evdev.EV_SW}},
}

var physes = []string{"usb-0000:00:14.0-1/input0", "usb-0000:00:14.0-2/input0", ""}

type item struct {
	name  string
	types []evdev.EvType
	phys  int
}

// refHandler: the capability classification the property refers to ("joystick-like", "a standard keyboard"), as a pure
// function of the capability set: the two standard-keyboard signatures, the other exact signatures (NKRO keyboard,
// mouse, system, multimedia) which are neither, and otherwise joystick-like iff force feedback or absolute axes.
func refHandler(types []evdev.EvType) string {
	set := map[evdev.EvType]bool{}
	for _, t := range types {
		set[t] = true
	}
	is := func(want ...evdev.EvType) bool {
		if len(want) != len(set) {
			return false
		}
		for _, w := range want {
			if !set[w] {
				return false
			}
		}
		return true
	}
	switch {
	case is(evdev.EV_SYN, evdev.EV_KEY, evdev.EV_MSC, evdev.EV_LED, evdev.EV_REP),
		is(evdev.EV_SYN, evdev.EV_KEY, evdev.EV_REL, evdev.EV_ABS, evdev.EV_MSC, evdev.EV_LED, evdev.EV_REP):
		return "keyboard"
	case is(evdev.EV_SYN, evdev.EV_KEY, evdev.EV_MSC, evdev.EV_REP),
		is(evdev.EV_SYN, evdev.EV_KEY, evdev.EV_REL, evdev.EV_MSC),
		is(evdev.EV_SYN, evdev.EV_KEY, evdev.EV_MSC),
		is(evdev.EV_SYN, evdev.EV_KEY, evdev.EV_REL, evdev.EV_ABS, evdev.EV_MSC):
		return "other"
	case set[evdev.EV_FF] || set[evdev.EV_ABS]:
		return "joystick"
	}
	return "other"
}

func codeHandler(di input.DeviceInfo) string {
	switch di.HandlerType() {
	case input.DI_TYPE_JOYSTICK:
		return "joystick"
	case input.DI_TYPE_STD_KBD:
		return "keyboard"
	}
	return "other"
}

var allTypes = []evdev.EvType{evdev.EV_SYN, evdev.EV_KEY, evdev.EV_REL, evdev.EV_ABS, evdev.EV_MSC, evdev.EV_SW, evdev.EV_LED, evdev.EV_SND, evdev.EV_REP, evdev.EV_FF, evdev.EV_PWR, evdev.EV_FF_STATUS}

func subset(mask int) []evdev.EvType {
	var r []evdev.EvType
	for b, t := range allTypes {
		if mask&(1<<uint(b)) != 0 {
			r = append(r, t)
		}
	}
	return r
}

func playClass(t input.DeviceType) string {
	switch t {
	case input.JoystickDevice:
		return "joystick"
	case input.KeyboardDevice:
		return "keyboard"
	}
	return "not-playable"
}

func canon(devs []input.Device, uniformID map[string]bool) string {
	var parts []string
	for _, d := range devs {
		var mem []string
		for _, h := range d.Handlers {
			mem = append(mem, h.DeviceInfo.Event())
		}
		sort.Strings(mem)
		id := "-"
		if uniformID[d.Phys] {
			id = fmt.Sprintf("%v", d.ID)
		}
		parts = append(parts, fmt.Sprintf("%q|%s|%v|%s", d.Phys, playClass(d.DeviceType), mem, id))
	}
	sort.Strings(parts)
	return strings.Join(parts, " ; ")
}

func permutations(n int, f func(p []int)) {
	p := make([]int, n)
	for i := range p {
		p[i] = i
	}
	var rec func(k int)
	rec = func(k int) {
		if k == n {
			f(p)
			return
		}
		for i := k; i < n; i++ {
			p[k], p[i] = p[i], p[k]
			rec(k + 1)
			p[k], p[i] = p[i], p[k]
		}
	}
	rec(0)
}

func main() {
	out := flag.String("out", "", "")
	shard := flag.Int("shard", 0, "")
	nshards := flag.Int("nshards", 1, "")
	tier := flag.String("tier", "quick", "")
	flag.Parse()
	go func() {
		for range logger.Messages {
		}
	}()
	res := vutil.NewResult()
	maxN := 4
	if *tier == "thorough" {
		maxN = 5
	}
	var items []item
	for c := range classes {
		for p := range physes {
			items = append(items, item{classes[c].name, classes[c].types, p})
		}
	}
	idModes := []string{"per-location"}
	if *tier == "thorough" {
		idModes = []string{"per-location", "per-handler"}
	}
	count := 0
	var rec func(start int, cur []item)
	check := func(ms []item, idMode string) {
		// build the handler list
		infos := make([]input.DeviceInfo, len(ms))
		uniform := map[string]bool{}
		for i, it := range ms {
			id := input.InputID{Bus: 3, Vendor: uint16(0x1000 + it.phys), Product: 7, Version: 1}
			if idMode == "per-handler" {
				id.Product = uint16(100 + i)
			}
			infos[i] = input.VerifDeviceInfo(fmt.Sprintf("event%d", i), fmt.Sprintf("Dev %d %s", it.phys, it.name), physes[it.phys], id, "", it.types)
			uniform[physes[it.phys]] = idMode == "per-location"
		}
		// reference partition and types (handler classification: refHandler, a pure function of the capability set)
		wantType := map[string]string{}
		wantMembers := map[string][]string{}
		for i, it := range ms {
			ph := physes[it.phys]
			wantMembers[ph] = append(wantMembers[ph], fmt.Sprintf("event%d", i))
			ht := refHandler(it.types)
			cur := wantType[ph]
			switch {
			case ht == "joystick":
				cur = "joystick"
			case ht == "keyboard" && cur != "joystick":
				cur = "keyboard"
			case cur == "":
				cur = "not-playable"
			}
			wantType[ph] = cur
		}
		var wantParts []string
		for ph, mem := range wantMembers {
			sort.Strings(mem)
			wantParts = append(wantParts, fmt.Sprintf("%q|%s|%v", ph, wantType[ph], mem))
		}
		sort.Strings(wantParts)
		want := strings.Join(wantParts, " ; ")
		first := ""
		desc := func(order []int) string {
			var s []string
			for _, i := range order {
				s = append(s, fmt.Sprintf("event%d:%s@%q", i, ms[i].name, physes[ms[i].phys]))
			}
			return strings.Join(s, ", ")
		}
		bad := false
		permutations(len(ms), func(p []int) {
			if bad {
				return
			}
			in := make([]input.DeviceInfo, len(p))
			for k, i := range p {
				in[k] = infos[i]
			}
			res.Add("evaluations", 1)
			var devs []input.Device
			pan := ""
			func() {
				defer func() {
					if r := recover(); r != nil {
						pan = fmt.Sprint(r)
					}
				}()
				devs = input.Normalize(in)
			}()
			detail := map[string]interface{}{"discovery_order": desc(p), "id_mode": idMode}
			if pan != "" {
				bad = true
				res.Violate("normalize-panics", pan, "Normalize panicked: "+pan+" on "+desc(p), detail)
				return
			}
			// partition + grouping + types, without IDs
			noID := map[string]bool{}
			got := canon(devs, noID)
			gotCmp := strings.ReplaceAll(got, "|-", "")
			detail["result"] = got
			detail["expected"] = want
			if gotCmp != want {
				bad = true
				cls := "grouping-or-type-wrong"
				res.Violate(cls, typeDiff(gotCmp, want), fmt.Sprintf("discovery order [%s]: Normalize gives {%s}, grouping by physical location with the type rule gives {%s}", desc(p), gotCmp, want), detail)
				return
			}
			full := canon(devs, uniform)
			if first == "" {
				first = full
			} else if full != first {
				bad = true
				res.Violate("order-dependent", "id-or-members", fmt.Sprintf("the result depends on the discovery order: [%s] gives {%s}, another order gave {%s}", desc(p), full, first), detail)
			}
		})
		if !bad {
			res.Distinct(want)
		}
	}
	rec = func(start int, cur []item) {
		if len(cur) > 0 {
			count++
			if count%*nshards == *shard {
				for _, m := range idModes {
					check(cur, m)
				}
				res.Add("multisets", 1)
				if len(res.Samples) < 3 && count%1777 == 1 {
					var s []string
					for _, it := range cur {
						s = append(s, it.name+"@"+fmt.Sprintf("%q", physes[it.phys]))
					}
					res.Sample(map[string]interface{}{"handlers": s, "orders": "all permutations"})
				}
			}
		}
		if len(cur) == maxN {
			return
		}
		for i := start; i < len(items); i++ {
			rec(i, append(cur, items[i]))
		}
	}
	rec(0, nil)
	if *shard == 0 {
		check(nil, "per-location") // empty discovery
	}
	// every capability set (all 4096 subsets of the 12 event types): the code's classification is the stated one and a
	// pure function of the capabilities - asked under a fresh event-node name and under a name that earlier handlers
	// with other capabilities have used (the kernel hands event numbers out again after an unplug)
	for mask := 0; mask < 1<<uint(len(allTypes)); mask++ {
		if mask%*nshards != *shard {
			continue
		}
		ts := subset(mask)
		want := refHandler(ts)
		for _, ev := range []string{fmt.Sprintf("event%d", 1000+mask), "event0", "event1"} {
			res.Add("evaluations", 1)
			di := input.VerifDeviceInfo(ev, "Sweep", physes[0], input.InputID{Bus: 3}, "", ts)
			if got := codeHandler(di); got != want {
				cls := "handler-classification-wrong"
				if ev == "event0" || ev == "event1" {
					cls = "classification-depends-on-history"
				}
				res.Violate(cls, fmt.Sprintf("%s-vs-%s", got, want), fmt.Sprintf("a handler %s with capabilities %v is classified %s, the capability rule gives %s", ev, ts, got, want),
					map[string]interface{}{"event": ev, "capabilities": fmt.Sprint(ts), "got": got, "expected": want})
				break
			}
		}
		// the capability list is a SET: every rotation, the reversed list and a list with a repeated entry classify alike
		if len(ts) >= 2 {
			var spellings [][]evdev.EvType
			for r := 1; r < len(ts); r++ {
				spellings = append(spellings, append(append([]evdev.EvType{}, ts[r:]...), ts[:r]...))
			}
			rev := append([]evdev.EvType{}, ts...)
			for i, j := 0, len(rev)-1; i < j; i, j = i+1, j-1 {
				rev[i], rev[j] = rev[j], rev[i]
			}
			spellings = append(spellings, rev, append(append([]evdev.EvType{}, ts...), ts[0]), append([]evdev.EvType{ts[len(ts)-1]}, ts...))
			for si, sp := range spellings {
				res.Add("evaluations", 1)
				di := input.VerifDeviceInfo(fmt.Sprintf("event%d", 9000+mask), "Sweep", physes[0], input.InputID{Bus: 3}, "", sp)
				if got := codeHandler(di); got != want {
					res.Violate("classification-depends-on-list-spelling", fmt.Sprintf("%s-vs-%s", got, want), fmt.Sprintf("capabilities %v spelled as %v (variant %d) are classified %s, the set is %s", ts, sp, si, got, want),
						map[string]interface{}{"capabilities": fmt.Sprint(sp), "got": got, "expected": want})
					break
				}
			}
		}
		// ... and grouped with one handler of every class, same and other location, both orders
		if *tier == "thorough" || mask%16 == *shard%16 {
			x := item{fmt.Sprintf("caps%03x", mask), ts, 0}
			for c := range classes {
				for _, ph := range []int{0, 1} {
					check([]item{x, {classes[c].name, classes[c].types, ph}}, "per-location")
				}
			}
			res.Add("multisets", int64(2*len(classes)))
		}
	}
	res.Write(*out)
}

// typeDiff: a stable, short description of WHAT differs (so distinct defects get distinct identities)
func typeDiff(got, want string) string {
	g, w := strings.Split(got, " ; "), strings.Split(want, " ; ")
	if len(g) != len(w) {
		return fmt.Sprintf("groups:%d-vs-%d", len(g), len(w))
	}
	for i := range g {
		if g[i] != w[i] {
			gf, wf := strings.Split(g[i], "|"), strings.Split(w[i], "|")
			if len(gf) > 1 && len(wf) > 1 && gf[1] != wf[1] {
				return "type:" + gf[1] + "-vs-" + wf[1]
			}
			return "members"
		}
	}
	return "?"
}
