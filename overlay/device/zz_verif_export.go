//go:build verif

// Verification-only export file. It is NOT part of gethiox/HIDI: it lives in
// /verif/overlay and is mapped into this package directory with `go build
// -overlay` (see /verif/DESIGN.md §2.1). Guard: build tag `verif`.
package device

import (
	"fmt"
	"os"
	"reflect"
	"sort"
	"strings"
	"sync"
	"unsafe"

	"github.com/gethiox/HIDI/internal/pkg/input"
	"github.com/gethiox/HIDI/internal/pkg/midi"
)

// VerifStep runs exactly what ProcessEvents runs for one input event.
func VerifStep(d *Device, ev *input.InputEvent) { d.processEvent(ev) }

// fields that are immutable after NewDevice (shared between clones, not dumped)
var verifShared = map[string]bool{
	"config": true, "InputDevice": true, "actionsPress": true, "actionsRelease": true,
	"noLogs": true, "openrgbPort": true,
}

func verifAccess(v reflect.Value) reflect.Value {
	if v.CanSet() {
		return v
	}
	return reflect.NewAt(v.Type(), unsafe.Pointer(v.UnsafeAddr())).Elem()
}

var mutexPtrType = reflect.TypeOf(&sync.Mutex{})

func verifDeep(v reflect.Value, sparseInt bool) reflect.Value {
	switch v.Kind() {
	case reflect.Bool, reflect.Int, reflect.Int8, reflect.Int16, reflect.Int32, reflect.Int64,
		reflect.Uint, reflect.Uint8, reflect.Uint16, reflect.Uint32, reflect.Uint64, reflect.Uintptr,
		reflect.Float32, reflect.Float64, reflect.String:
		return v
	case reflect.Map:
		if v.IsNil() {
			return v
		}
		out := reflect.MakeMapWithSize(v.Type(), v.Len())
		it := v.MapRange()
		for it.Next() {
			val := it.Value()
			if sparseInt && val.Kind() == reflect.Int && val.Int() == 0 {
				continue // a missing key reads as 0
			}
			out.SetMapIndex(it.Key(), verifDeep(val, sparseInt))
		}
		return out
	case reflect.Slice:
		if v.IsNil() {
			return v
		}
		out := reflect.MakeSlice(v.Type(), v.Len(), v.Len())
		for i := 0; i < v.Len(); i++ {
			out.Index(i).Set(verifDeep(v.Index(i), sparseInt))
		}
		return out
	case reflect.Array:
		out := reflect.New(v.Type()).Elem()
		for i := 0; i < v.Len(); i++ {
			out.Index(i).Set(verifDeep(v.Index(i), sparseInt))
		}
		return out
	case reflect.Struct:
		out := reflect.New(v.Type()).Elem()
		for i := 0; i < v.NumField(); i++ {
			verifAccess(out.Field(i)).Set(verifDeep(verifAccess(addressable(v).Field(i)), sparseInt))
		}
		return out
	case reflect.Ptr:
		if v.IsNil() {
			return v
		}
		e := v.Type().Elem()
		if e.Kind() == reflect.Struct && verifSyncPkg(e.PkgPath()) && !verifAtomic(e) {
			return reflect.New(e) // a lock / wait group / once of the runtime or of the scheduler: a fresh, unlocked one
		}
		out := reflect.New(e) // atomics and plain state behind a pointer: an independent copy of the pointee
		out.Elem().Set(verifDeep(verifAccess(v.Elem()), sparseInt))
		return out
	case reflect.Chan, reflect.Func, reflect.UnsafePointer:
		return v // shared: channels are wiring, function values are code
	case reflect.Interface:
		return v // shared (no Device field holds mutable state behind an interface)
	}
	panic(fmt.Sprintf("VERIF-INFRA: VerifClone does not understand kind %s (%s)", v.Kind(), v.Type()))
}

func verifSyncPkg(p string) bool {
	return p == "sync" || p == "sync/atomic" || strings.HasSuffix(p, "/vsched")
}

func verifAtomic(t reflect.Type) bool {
	return t.PkgPath() == "sync/atomic" || strings.HasPrefix(t.Name(), "Atomic")
}

func addressable(v reflect.Value) reflect.Value {
	if v.CanAddr() {
		return v
	}
	c := reflect.New(v.Type()).Elem()
	c.Set(v)
	return c
}

// VerifClone returns an independent copy of every mutable field of d. The
// output and signal channels are replaced by the supplied ones; midiIn is shared.
func VerifClone(d *Device, out chan midi.Event, sigs chan os.Signal) *Device {
	dst := new(Device)
	sv := reflect.ValueOf(d).Elem()
	dv := reflect.ValueOf(dst).Elem()
	t := sv.Type()
	for i := 0; i < t.NumField(); i++ {
		name := t.Field(i).Name
		sf, df := verifAccess(sv.Field(i)), verifAccess(dv.Field(i))
		switch {
		case verifShared[name]:
			df.Set(sf)
		case name == "outputEvents" || name == "target" || name == "effectEvents" || name == "sigs" || name == "midiIn":
			// set below
		default:
			df.Set(verifDeep(sf, name == "activeNotesCounter"))
		}
	}
	var o chan<- midi.Event = out
	dst.outputEvents = o
	dst.target = &o
	dst.effectEvents = make(chan midi.Event, 8)
	dst.sigs = sigs
	dst.midiIn = d.midiIn
	return dst
}

// VerifDump renders every mutable state field canonically (maps sorted; zero
// counters omitted because a missing counter reads as zero).
func VerifDump(d *Device) string {
	var b strings.Builder
	sv := reflect.ValueOf(d).Elem()
	t := sv.Type()
	for i := 0; i < t.NumField(); i++ {
		name := t.Field(i).Name
		if verifShared[name] {
			continue
		}
		f := verifAccess(sv.Field(i))
		switch f.Kind() {
		case reflect.Chan, reflect.Func, reflect.Interface, reflect.UnsafePointer:
			continue
		case reflect.Ptr:
			if f.IsNil() || f.Type().Elem().Kind() != reflect.Struct || (verifSyncPkg(f.Type().Elem().PkgPath()) && !verifAtomic(f.Type().Elem())) {
				continue
			}
			f = verifAccess(f.Elem()) // state behind a pointer (atomics included) is part of the state
		}
		b.WriteString(name)
		b.WriteByte('=')
		if name == "activeNotesCounter" {
			verifDumpCounter(&b, f)
		} else {
			fmt.Fprintf(&b, "%v", f.Interface())
		}
		b.WriteByte(';')
	}
	return b.String()
}

func verifDumpCounter(b *strings.Builder, f reflect.Value) {
	type ent struct{ ch, note, n int64 }
	var es []ent
	if f.Kind() != reflect.Map {
		fmt.Fprintf(b, "%v", f.Interface())
		return
	}
	it := f.MapRange()
	for it.Next() {
		inner := it.Value()
		if inner.Kind() != reflect.Map {
			fmt.Fprintf(b, "%v", f.Interface())
			return
		}
		jt := inner.MapRange()
		for jt.Next() {
			var n int64
			switch jt.Value().Kind() {
			case reflect.Int, reflect.Int8, reflect.Int16, reflect.Int32, reflect.Int64:
				n = jt.Value().Int()
			default:
				n = int64(jt.Value().Uint())
			}
			if n != 0 {
				es = append(es, ent{toI(it.Key()), toI(jt.Key()), n})
			}
		}
	}
	sort.Slice(es, func(i, j int) bool {
		if es[i].ch != es[j].ch {
			return es[i].ch < es[j].ch
		}
		return es[i].note < es[j].note
	})
	for _, e := range es {
		fmt.Fprintf(b, "%d/%d:%d ", e.ch, e.note, e.n)
	}
}

func toI(v reflect.Value) int64 {
	switch v.Kind() {
	case reflect.Int, reflect.Int8, reflect.Int16, reflect.Int32, reflect.Int64:
		return v.Int()
	}
	return int64(v.Uint())
}

// VerifSetIO replaces the output / signal channels of a freshly built device.
func VerifSetIO(d *Device, out chan midi.Event, sigs chan os.Signal) {
	var o chan<- midi.Event = out
	d.outputEvents = o
	d.target = &o
	d.sigs = sigs
}

// VerifExternal returns a sorted rendering of the MIDI-input note tracker.
func VerifExternal(d *Device) string {
	d.externalTrackerMutex.Lock()
	defer d.externalTrackerMutex.Unlock()
	return fmt.Sprintf("%v", d.externalNoteTracker)
}

// VerifSetMidiIn sets the MIDI-input channel of a (cloned) device.
func VerifSetMidiIn(d *Device, in <-chan midi.Event) { d.midiIn = in }
