//go:build verif

// Package vsched is a controlled cooperative scheduler for instrumented Go code
// (Engine B of /verif/DESIGN.md). Exactly one scheduler thread runs at a time; every
// synchronisation operation of the instrumented code (channel send/receive/select/close,
// mutex lock, wait-group wait, context cancellation, sleep/timers, goroutine start) is a
// scheduling point at which the explorer decides which enabled thread continues. Channels
// are modelled inside the scheduler (the real channel object is only an identity token), so
// no operation can block outside the scheduler's knowledge. Virtual time.
package vsched

import (
	"context"
	"fmt"
	"reflect"
	"runtime"
	"sort"
	"strings"
	"sync"
	"time"
)

// ---------------------------------------------------------------- threads and operations

type opKind int

const (
	opStart opKind = iota
	opSend
	opRecv
	opSelect
	opClose
	opLock
	opWait
	opSleep
	opQuiesce // enabled only when nothing else at all (not even a sleeper) can run
	opYield // explicit choice point (MapOrder / Choose)
	opCond  // generic guarded step: enabled iff cond(), executes act (RWMutex, Once)
)

type selCase struct {
	ch     *vchan
	isSend bool
	val    interface{}
}

type op struct {
	kind    opKind
	ch      *vchan
	val     interface{}
	mu      *Mutex
	wg      *WaitGroup
	cases   []selCase
	hasDef  bool
	dur     time.Duration
	nChoice int // opYield: number of alternatives
	cond    func() bool
	act     func(t *thread)
	label   string
	// results
	rval    interface{}
	rok     bool
	chosen  int // select: case index, -1 default; yield: alternative
	panicMsg string
	descHash uint64
	done    bool // completed by a partner (rendezvous); thread is merely waiting to be resumed
}

type thread struct {
	sid     string // interleaving-independent identity: parent's sid + spawn index
	nspawn  int
	nops    int
	sidHash uint64
	lastRun int
	hist    uint64 // hash of every (operation, result) this thread completed: its local state
	id      int
	label   string
	resume  chan struct{}
	pending *op
	daemon  bool
	ticker  bool // pseudo-thread of a Ticker
	finished bool
	vc      []int // vector clock (race detector)
}

type vchan struct {
	sidHash, bufHash uint64
	dirty  bool
	sid    string // interleaving-independent identity: first-using thread + its operation count (or the harness label)
	ref    interface{} // keeps the real channel alive so its address is not reused within one execution
	id     int
	cap    int
	buf    []interface{}
	bufVC  [][]int
	closed bool
	closeVC []int
	label  string
}

// ---------------------------------------------------------------- scheduler state (one execution)

type option struct {
	t       *thread
	variant int // select case index / partner thread id / yield alternative
	partner *thread
}

type Point struct {
	Key      uint64   // fingerprint of the global state before the choice (see stateKey)
	OptThreads []int32 // thread id of every option
	Options  []string // rendered options (only when Options.Trace is set)
	Chosen   int
	Running  int  // id of the thread that was running before the point (-1 none)
	RunningEnabled bool
}

type sched struct {
	threads  []*thread
	cur      *thread
	wake     chan struct{}
	chans    map[uintptr]*vchan
	chanSeq  int
	clock    time.Duration
	prefix   []int
	points   []Point
	trace    []string
	obs      []Obs
	aborting bool
	panicked string
	divergence string
	maxPoints int
	horizonHit bool
	sleepBudget map[string]int
	races    []string
	accesses map[accessKey]*accessRec
	mapOrder bool
	alive    sync.WaitGroup
	muIDs    map[*Mutex]int
	atomics  map[interface{}]*atomicCell
	final    bool
	obsHash  uint64
	tracing  bool
	defBudget int
}

type Obs struct {
	Kind string
	Val  interface{}
	At   int // index in the trace of scheduling points
	Thread string
	Clock  time.Duration // virtual time of the observation
}

var s *sched

// ---------------------------------------------------------------- public harness API

type Options struct {
	MaxPoints   int            // horizon: abort the execution after this many scheduling points
	SleepBudget map[string]int // per sleep label: how many times a Sleep with that label is a real branching point
	Races       bool           // enable the happens-before race detector on R/W annotations
	DefaultSleepBudget int     // budget of sleep labels not listed in SleepBudget
	Trace       bool           // render option lists and the schedule as text (reports / replays)
}

type Execution struct {
	Choices     []int
	Points      []Point
	Trace       []string
	Obs         []Obs
	Deadlock    bool
	Blocked     []string // pending operations of unfinished non-daemon threads at the end
	Leaked      []string // unfinished daemon threads (informational)
	Panic       string
	Divergence  string
	HorizonHit  bool
	Races       []string
	Clock       time.Duration
}

// Run executes scenario once: choices are replayed (an out-of-range choice is a divergence error),
// afterwards option 0 is taken at every point.
func Run(scenario func(), choices []int, opt Options) *Execution {
	if opt.MaxPoints == 0 {
		opt.MaxPoints = 5000
	}
	s = &sched{wake: make(chan struct{}), chans: map[uintptr]*vchan{}, prefix: choices, maxPoints: opt.MaxPoints,
		sleepBudget: map[string]int{}, accesses: map[accessKey]*accessRec{}, muIDs: map[*Mutex]int{}, atomics: map[interface{}]*atomicCell{}}
	for k, v := range opt.SleepBudget {
		s.sleepBudget[k] = v
	}
	raceOn = opt.Races
	s.defBudget = opt.DefaultSleepBudget
	s.tracing = opt.Trace
	main := s.newThread("main", scenario)
	_ = main
	s.loop()
	ex := &Execution{Points: s.points, Trace: s.trace, Obs: s.obs, Panic: s.panicked, Divergence: s.divergence, HorizonHit: s.horizonHit, Races: s.races, Clock: s.clock}
	for _, p := range s.points {
		ex.Choices = append(ex.Choices, p.Chosen)
	}
	for _, t := range s.threads {
		if !t.finished {
			d := fmt.Sprintf("%s: %s", t.label, describe(t.pending))
			if t.daemon {
				ex.Leaked = append(ex.Leaked, d)
			} else {
				ex.Blocked = append(ex.Blocked, d)
			}
		}
	}
	ex.Deadlock = len(ex.Blocked) > 0 && s.panicked == "" && !s.horizonHit && s.divergence == ""
	s.abortAll()
	return ex
}

func (sc *sched) newThread(label string, f func()) *thread {
	t := &thread{id: len(sc.threads), label: label, resume: make(chan struct{}), pending: &op{kind: opStart, label: "start"}, sid: "main"}
	if sc.cur != nil {
		t.sid = fmt.Sprintf("%s/%d", sc.cur.sid, sc.cur.nspawn)
		sc.cur.nspawn++
	}
	if sc.cur != nil {
		t.vc = release(sc.cur)
	}
	t.vc = ensure(t.vc, t.id)
	t.vc[t.id] = 1
	sc.alive.Add(1)
	sc.threads = append(sc.threads, t)
	go func() {
		defer sc.alive.Done()
		<-t.resume
		defer func() {
			if r := recover(); r != nil {
				if !sc.aborting {
					sc.panicked = fmt.Sprintf("thread %s panicked: %v", t.label, r)
				}
			}
			t.finished = true
			t.pending = nil
			if !sc.aborting {
				sc.wake <- struct{}{}
			}
		}()
		if sc.aborting {
			return
		}
		f()
	}()
	return t
}

func (sc *sched) abortAll() {
	sc.aborting = true
	for _, t := range sc.threads {
		if !t.finished {
			select {
			case t.resume <- struct{}{}:
			case <-time.After(5 * time.Second):
				// a thread that is not parked on its resume channel cannot exist (only one runs at a time)
			}
		}
	}
	sc.alive.Wait() // every thread goroutine has fully unwound before the next execution starts
}

func (sc *sched) budget(label string) int {
	if v, ok := sc.sleepBudget[label]; ok {
		return v
	}
	return sc.defBudget
}

// ---------------------------------------------------------------- enabledness

func (sc *sched) parkedReceivers(ch *vchan, except *thread) []*thread {
	var r []*thread
	for _, t := range sc.threads {
		if t == except || t.finished || t.pending == nil || t.pending.done {
			continue
		}
		switch t.pending.kind {
		case opRecv:
			if t.pending.ch == ch {
				r = append(r, t)
			}
		case opSelect:
			for _, c := range t.pending.cases {
				if !c.isSend && c.ch == ch {
					r = append(r, t)
					break
				}
			}
		}
	}
	return r
}

func (sc *sched) parkedSenders(ch *vchan, except *thread) []*thread {
	var r []*thread
	for _, t := range sc.threads {
		if t == except || t.finished || t.pending == nil || t.pending.done {
			continue
		}
		switch t.pending.kind {
		case opSend:
			if t.pending.ch == ch {
				r = append(r, t)
			}
		case opSelect:
			for _, c := range t.pending.cases {
				if c.isSend && c.ch == ch {
					r = append(r, t)
					break
				}
			}
		}
	}
	return r
}

// options of one thread at this point
func (sc *sched) optionsOf(t *thread) []option {
	o := t.pending
	if o == nil {
		return nil
	}
	if o.done {
		return []option{{t: t}}
	}
	switch o.kind {
	case opStart, opClose, opSleep, opQuiesce:
		return []option{{t: t}}
	case opYield:
		var r []option
		for i := 0; i < o.nChoice; i++ {
			r = append(r, option{t: t, variant: i})
		}
		return r
	case opLock:
		if o.mu.owner == nil {
			return []option{{t: t}}
		}
	case opCond:
		if o.cond() {
			return []option{{t: t}}
		}
	case opWait:
		if o.wg.n <= 0 {
			return []option{{t: t}}
		}
	case opSend:
		return sc.sendOptions(t, o.ch, -1)
	case opRecv:
		return sc.recvOptions(t, o.ch, -1)
	case opSelect:
		var r []option
		for i, c := range o.cases {
			if c.isSend {
				r = append(r, sc.sendOptions(t, c.ch, i)...)
			} else {
				r = append(r, sc.recvOptions(t, c.ch, i)...)
			}
		}
		if len(r) == 0 && o.hasDef {
			r = append(r, option{t: t, variant: -1})
		}
		return r
	}
	return nil
}

func (sc *sched) sendOptions(t *thread, ch *vchan, caseIdx int) []option {
	if ch == nil {
		return nil
	}
	if ch.closed {
		return []option{{t: t, variant: caseIdx}} // will panic
	}
	if ch.cap > 0 {
		if len(ch.buf) < ch.cap {
			return []option{{t: t, variant: caseIdx}}
		}
		return nil
	}
	var r []option
	for _, p := range sc.parkedReceivers(ch, t) {
		r = append(r, option{t: t, variant: caseIdx, partner: p})
	}
	return r
}

func (sc *sched) recvOptions(t *thread, ch *vchan, caseIdx int) []option {
	if ch == nil {
		return nil
	}
	if len(ch.buf) > 0 || ch.closed {
		return []option{{t: t, variant: caseIdx}}
	}
	if ch.cap > 0 {
		return nil
	}
	var r []option
	for _, p := range sc.parkedSenders(ch, t) {
		r = append(r, option{t: t, variant: caseIdx, partner: p})
	}
	return r
}

func describe(o *op) string {
	if o == nil {
		return "finished"
	}
	if o.done {
		return "ready(" + o.label + ")"
	}
	switch o.kind {
	case opStart:
		return "start"
	case opSend:
		return "send " + chName(o.ch) + " @" + o.label
	case opRecv:
		return "recv " + chName(o.ch) + " @" + o.label
	case opSelect:
		var cs []string
		for _, c := range o.cases {
			if c.isSend {
				cs = append(cs, "send "+chName(c.ch))
			} else {
				cs = append(cs, "recv "+chName(c.ch))
			}
		}
		d := ""
		if o.hasDef {
			d = " default"
		}
		return "select{" + strings.Join(cs, ",") + d + "} @" + o.label
	case opClose:
		return "close " + chName(o.ch) + " @" + o.label
	case opLock:
		return "lock " + o.mu.name() + " @" + o.label
	case opWait:
		return "wg.wait @" + o.label
	case opSleep:
		return fmt.Sprintf("sleep %v @%s", o.dur, o.label)
	case opQuiesce:
		return "wait-for-quiescence"
	case opCond:
		return o.label
	case opYield:
		return fmt.Sprintf("choose(%d) @%s", o.nChoice, o.label)
	}
	return "?"
}

func chName(c *vchan) string {
	if c == nil {
		return "nil-chan"
	}
	if c.label != "" {
		return c.label
	}
	return "ch:" + c.sid
}

func (o option) String() string {
	r := fmt.Sprintf("T%d:%s", o.t.id, describe(o.t.pending))
	if o.t.pending != nil && (o.t.pending.kind == opSelect || o.t.pending.kind == opYield) && !o.t.pending.done {
		r += fmt.Sprintf("#%d", o.variant)
	}
	if o.partner != nil {
		r += fmt.Sprintf("<->T%d", o.partner.id)
	}
	return r
}

// ---------------------------------------------------------------- the scheduling loop

func (sc *sched) loop() {
	sc.cur = nil
	first := true
	for {
		if !first {
			<-sc.wake // the running thread parked on an operation or finished
		}
		first = false
		if sc.panicked != "" || sc.divergence != "" {
			return
		}
		// canonical option order: running thread first (if enabled), then ascending ids
		var opts []option
		runningEnabled := false
		if sc.cur != nil && !sc.cur.finished {
			o := sc.optionsOf(sc.cur)
			if len(o) > 0 && !((sc.cur.pending.kind == opSleep || sc.cur.pending.kind == opQuiesce) && !sc.cur.pending.done) {
				runningEnabled = true
				opts = append(opts, o...)
			}
		}
		var last []option  // threads waiting for global quiescence
		var later []option // sleeping threads go last (yield semantics): a polling loop cannot monopolise the default schedule
		var ticks []option // sleeping Ticker pseudo-threads: ticks alone never keep an execution alive
		anyLive := false   // some thread that must finish has not finished yet
		for _, t := range sc.threads {
			if !t.finished && !t.daemon {
				anyLive = true
			}
			if t.finished || (t == sc.cur && runningEnabled) {
				continue
			}
			o := sc.optionsOf(t)
			if t.pending != nil && t.pending.kind == opQuiesce && !t.pending.done {
				last = append(last, o...)
			} else if t.pending != nil && t.pending.kind == opSleep && !t.pending.done && t.ticker {
				ticks = append(ticks, o...)
			} else if t.pending != nil && t.pending.kind == opSleep && !t.pending.done {
				later = append(later, o...)
			} else {
				opts = append(opts, o...)
			}
		}
		// fairness among sleepers (polling loops): least recently run first
		sort.SliceStable(later, func(i, j int) bool { return later[i].t.lastRun < later[j].t.lastRun })
		sort.SliceStable(ticks, func(i, j int) bool { return ticks[i].t.lastRun < ticks[j].t.lastRun })
		// a ticker is an ordinary sleeper while there is no thread waiting for quiescence; next to such a waiter it only
		// fires within its branching budget (a periodic tick must not postpone "nothing else can happen" for ever);
		// once every thread that must finish has finished, tickers are ignored altogether
		if !anyLive {
			ticks = nil
		} else if len(last) == 0 {
			later = append(later, ticks...)
			sort.SliceStable(later, func(i, j int) bool { return later[i].t.lastRun < later[j].t.lastRun })
			ticks = nil
		}
		// sleeps beyond their branching budget are only taken when nothing else is enabled
		if len(opts) > 0 || (len(later) == 0 && len(last) > 0) {
			for _, l := range append(append([]option{}, later...), ticks...) {
				if sc.budget(l.t.pending.label) > 0 {
					opts = append(opts, l)
				}
			}
			if len(opts) == 0 && len(later) > 0 {
				opts = append(opts, later[0])
			}
		} else if len(later) > 0 {
			// only sleepers can run: the fair one (least recently run) is the default; another sleeper may overtake it
			// only while its branching budget lasts, otherwise two polling loops unroll each other without end
			opts = append(opts, later[0])
			for _, l := range later[1:] {
				if sc.budget(l.t.pending.label) > 0 {
					opts = append(opts, l)
				}
			}
		}
		if len(opts) == 0 {
			opts = last
		}
		if len(opts) == 0 {
			return // complete or deadlock: Run() decides
		}
		if sc.final {
			opts = opts[:1] // tear-down phase: interleavings are irrelevant, no branching
		}
		// a freshly created thread is started at once, without branching: starting has no effect on any other
		// thread (it runs thread-local code up to its first operation; unsynchronised shared accesses in that
		// stretch are judged by the happens-before race detector, not by interleaving). Harness threads whose
		// start time matters begin with Pause().
		for _, o := range opts {
			if o.t.pending.kind == opStart && !o.t.pending.done {
				opts = []option{o}
				runningEnabled = false // not a choice, hence never a preemption
				break
			}
		}
		if len(sc.points) >= sc.maxPoints {
			sc.horizonHit = true
			return
		}
		idx := 0
		if len(sc.points) < len(sc.prefix) {
			idx = sc.prefix[len(sc.points)]
			if idx < 0 || idx >= len(opts) {
				sc.divergence = fmt.Sprintf("replay divergence at point %d: choice %d but %d options", len(sc.points), idx, len(opts))
				return
			}
		}
		p := Point{Chosen: idx, Running: -1, RunningEnabled: runningEnabled, Key: sc.stateKey()}
		if sc.cur != nil {
			p.Running = sc.cur.id
		}
		p.OptThreads = make([]int32, len(opts))
		for i, o := range opts {
			p.OptThreads[i] = int32(o.t.id)
			if sc.tracing {
				p.Options = append(p.Options, o.String())
			}
		}
		sc.points = append(sc.points, p)
		ch := opts[idx]
		if sc.tracing {
			sc.trace = append(sc.trace, ch.String())
		}
		sc.apply(ch)
		sc.cur = ch.t
		ch.t.lastRun = len(sc.points)
		ch.t.resume <- struct{}{}
	}
}

func (sc *sched) apply(o option) {
	t := o.t
	p := t.pending
	if p.done {
		return
	}
	switch p.kind {
	case opStart:
	case opYield:
		p.chosen = o.variant
	case opSleep:
		sc.clock += p.dur
		if b := sc.budget(p.label); b > 0 {
			sc.sleepBudget[p.label] = b - 1
		}
	case opClose:
		sc.doClose(t, p, p.ch)
	case opLock:
		p.mu.owner = t
		joinVC(t, p.mu.vc)
	case opWait:
		joinVC(t, p.wg.vc)
	case opCond:
		p.act(t)
	case opSend:
		sc.doSend(t, p, p.ch, p.val, o.partner)
	case opRecv:
		sc.doRecv(t, p, p.ch, o.partner)
	case opSelect:
		p.chosen = o.variant
		if o.variant >= 0 {
			c := p.cases[o.variant]
			if c.isSend {
				sc.doSend(t, p, c.ch, c.val, o.partner)
			} else {
				sc.doRecv(t, p, c.ch, o.partner)
			}
		}
	}
}

func (sc *sched) doClose(t *thread, p *op, ch *vchan) {
	if ch == nil {
		p.panicMsg = "close of nil channel"
		return
	}
	if ch.closed {
		p.panicMsg = "close of closed channel"
		return
	}
	ch.closed = true
	ch.dirty = true
	ch.closeVC = release(t)
}

func (sc *sched) doSend(t *thread, p *op, ch *vchan, v interface{}, partner *thread) {
	if ch.closed {
		p.panicMsg = "send on closed channel"
		return
	}
	if partner != nil { // rendezvous: hand the value to the parked receiver
		q := partner.pending
		if q.kind == opSelect {
			for i, c := range q.cases {
				if !c.isSend && c.ch == ch {
					q.chosen = i
					break
				}
			}
		}
		q.rval, q.rok, q.done = v, true, true
		a, b := release(t), release(partner) // unbuffered: synchronises both ways
		joinVC(partner, a)
		joinVC(t, b)
		return
	}
	ch.buf = append(ch.buf, v)
	ch.dirty = true
	ch.bufVC = append(ch.bufVC, release(t))
}

func (sc *sched) doRecv(t *thread, p *op, ch *vchan, partner *thread) {
	if partner != nil { // rendezvous with a parked sender
		q := partner.pending
		var v interface{}
		if q.kind == opSelect {
			for i, c := range q.cases {
				if c.isSend && c.ch == ch {
					q.chosen = i
					v = c.val
					break
				}
			}
		} else {
			v = q.val
		}
		q.done = true
		p.rval, p.rok = v, true
		a, b := release(t), release(partner)
		joinVC(partner, a)
		joinVC(t, b)
		return
	}
	if len(ch.buf) > 0 {
		p.rval, p.rok = ch.buf[0], true
		joinVC(t, ch.bufVC[0])
		ch.buf, ch.bufVC = ch.buf[1:], ch.bufVC[1:]
		ch.dirty = true
		return
	}
	// closed and empty
	p.rval, p.rok = nil, false
	joinVC(t, ch.closeVC)
}

// ---------------------------------------------------------------- thread-side plumbing

// block parks the calling thread on op o until the scheduler resumes it; in abort mode it unwinds.
func block(o *op) {
	if s == nil || s.aborting {
		if s != nil && s.aborting {
			runtime.Goexit()
		}
		panic("vsched operation outside vsched.Run")
	}
	t := s.cur
	t.pending = o
	s.wake <- struct{}{}
	<-t.resume
	if s.aborting {
		runtime.Goexit()
	}
	t.pending = nil
	t.nops++
	t.hist = mix(mix(t.hist, hashStr(o.label)), uint64(o.kind)<<8|uint64(uint8(o.chosen+1)))
	if o.rval != nil || o.rok {
		t.hist = mix(t.hist, hashStr(fmt.Sprintf("%v|%v", o.rval, o.rok)))
	}
	if o.panicMsg != "" {
		panic(o.panicMsg)
	}
}

type pcInfo struct {
	label    string
	internal bool
}

var pcCache = map[uintptr]pcInfo{}

// caller: "file.go:line" of the first frame outside this package (cached per program counter).
func caller() string {
	var pcs [10]uintptr
	n := runtime.Callers(2, pcs[:])
	for i := 0; i < n; i++ {
		pc := pcs[i]
		inf, ok := pcCache[pc]
		if !ok {
			fr, _ := runtime.CallersFrames([]uintptr{pc}).Next()
			inf.internal = strings.Contains(fr.File, "/vsched/")
			k := strings.LastIndex(fr.File, "/")
			inf.label = fmt.Sprintf("%s:%d", fr.File[k+1:], fr.Line)
			pcCache[pc] = inf
		}
		if !inf.internal {
			return inf.label
		}
	}
	return "?"
}

func chanOf(c interface{}) *vchan {
	v := reflect.ValueOf(c)
	if v.Kind() != reflect.Chan {
		panic("vsched: not a channel")
	}
	if v.IsNil() {
		return nil
	}
	p := v.Pointer()
	if vc, ok := s.chans[p]; ok {
		return vc
	}
	s.chanSeq++
	vc := &vchan{id: s.chanSeq, cap: v.Cap(), ref: c, dirty: true, closed: initClosed[p]}
	if s.cur != nil {
		vc.sid = fmt.Sprintf("%s.%d", s.cur.sid, s.cur.nops)
	}
	s.chans[p] = vc
	return vc
}

// Name attaches a readable label to a channel (harness convenience).
func Name(c interface{}, label string) {
	if vc := chanOf(c); vc != nil {
		vc.label = label
		vc.sid = label
		vc.sidHash = 0
	}
}

// Go starts a new scheduler thread (T1).
func Go(label string, f func()) {
	if s == nil || s.aborting {
		return
	}
	s.newThread(label+"@"+caller(), f)
}

// Unfinished lists the labels of the threads (other than the caller) that have not finished yet, daemons excluded.
func Unfinished() []string {
	var r []string
	if s == nil {
		return r
	}
	for _, t := range s.threads {
		if t != s.cur && !t.finished && !t.daemon {
			r = append(r, t.label)
		}
	}
	return r
}

// Daemon marks the calling thread: it may stay blocked when the execution ends.
func Daemon() {
	if s != nil && s.cur != nil {
		s.cur.daemon = true
	}
}

// Observe appends a harness observation to the execution record.
func Observe(kind string, v interface{}) {
	if s == nil || s.aborting {
		return
	}
	s.obs = append(s.obs, Obs{Kind: kind, Val: v, At: len(s.points), Thread: s.cur.label, Clock: s.clock})
	s.obsHash = mix(s.obsHash, hashStr(fmt.Sprintf("%s=%v", kind, v)))
}

// Final marks the tear-down phase of a scenario: from here on the scheduler always takes the
// first option (the explorer sees no alternatives), executions still run to completion.
func Final() {
	if s != nil {
		s.final = true
	}
}

// Quiesce blocks until no other thread can make a step (sleepers included): used by harness finisher threads.
func Quiesce() {
	if s == nil || s.aborting {
		return
	}
	block(&op{kind: opQuiesce, label: "quiesce"})
}

// Pause is a scheduling point without effect (always enabled): the calling thread may be delayed here arbitrarily.
func Pause() {
	if s == nil || s.aborting {
		return
	}
	block(&op{kind: opYield, nChoice: 1, label: "pause"})
}

// Choose is an explicit scheduler choice among n alternatives (used for map iteration order).
func Choose(n int, label string) int {
	if n <= 1 || s == nil || s.aborting {
		return 0
	}
	o := &op{kind: opYield, nChoice: n, label: label}
	block(o)
	return o.chosen
}

type SendEnd[E any] struct{ ch chan<- E }
type RecvEnd[E any] struct{ ch <-chan E }

func Out[E any](ch chan<- E) SendEnd[E] { return SendEnd[E]{ch} }
func In[E any](ch <-chan E) RecvEnd[E]  { return RecvEnd[E]{ch} }

func (e SendEnd[E]) Send(v E) {
	if s == nil || s.aborting {
		runtime.Goexit()
	}
	o := &op{kind: opSend, ch: chanOf(e.ch), val: v, label: caller()}
	block(o)
}

func (e RecvEnd[E]) Recv() E {
	v, _ := e.Recv2()
	return v
}

func (e RecvEnd[E]) Recv2() (E, bool) {
	var zero E
	if s == nil || s.aborting {
		runtime.Goexit()
	}
	o := &op{kind: opRecv, ch: chanOf(e.ch), label: caller()}
	block(o)
	if !o.rok || o.rval == nil {
		return zero, o.rok
	}
	return o.rval.(E), true
}

var initClosed = map[uintptr]bool{}

// Close (T6)
func Close[E any](ch chan<- E) {
	if s == nil { // package initialisation of instrumented code: really close, and remember it for the model
		initClosed[reflect.ValueOf(ch).Pointer()] = true
		close(ch)
		return
	}
	if s.aborting {
		return
	}
	o := &op{kind: opClose, ch: chanOf(ch), label: caller()}
	block(o)
}

// CloseBidi closes a bidirectional channel value.
func CloseBidi[E any](ch chan E) { Close[E](ch) }

// ---- select (T5)

type Case interface{ sel() selCase }

type RecvCase[E any] struct {
	ch  <-chan E
	val E
	ok  bool
}

func (c *RecvCase[E]) sel() selCase { return selCase{ch: chanOf(c.ch)} }
func (c *RecvCase[E]) Value() E      { return c.val }
func (c *RecvCase[E]) Value2() (E, bool) { return c.val, c.ok }

type SendCase[E any] struct {
	ch chan<- E
	v  E
}

func (c *SendCase[E]) sel() selCase { return selCase{ch: chanOf(c.ch), isSend: true, val: c.v} }

// Case: the send case of a select; the element type comes from the channel alone, so a value that is merely assignable
// to it (a named slice type sent on a chan []byte) is accepted exactly as the native send statement accepts it.
func (e SendEnd[E]) Case(v E) *SendCase[E] { return &SendCase[E]{ch: e.ch, v: v} }

func CaseRecv[E any](ch <-chan E) *RecvCase[E]      { return &RecvCase[E]{ch: ch} }
func CaseSend[E any](ch chan<- E, v E) *SendCase[E] { return &SendCase[E]{ch: ch, v: v} }

type valueSetter interface{ set(v interface{}, ok bool) }

func (c *RecvCase[E]) set(v interface{}, ok bool) {
	c.ok = ok
	if v != nil {
		c.val = v.(E)
	}
}

// Select returns the index of the chosen case, -1 for default.
func Select(hasDefault bool, cases ...Case) int {
	if s == nil || s.aborting {
		runtime.Goexit()
	}
	o := &op{kind: opSelect, hasDef: hasDefault, label: caller()}
	for _, c := range cases {
		o.cases = append(o.cases, c.sel())
	}
	block(o)
	if o.chosen >= 0 {
		if vs, ok := cases[o.chosen].(valueSetter); ok {
			vs.set(o.rval, o.rok)
		}
	}
	return o.chosen
}

// ---- sync (T7)

type Mutex struct {
	owner *thread
	vc    []int
	label string
}

func (m *Mutex) name() string {
	if m.label != "" {
		return m.label
	}
	if s == nil {
		return "mutex"
	}
	id, ok := s.muIDs[m]
	if !ok {
		id = len(s.muIDs) + 1
		s.muIDs[m] = id
	}
	return fmt.Sprintf("mutex%d", id)
}

func (m *Mutex) Lock() {
	if s == nil || s.aborting {
		return
	}
	o := &op{kind: opLock, mu: m, label: caller()}
	block(o)
}

func (m *Mutex) Unlock() {
	if s == nil || s.aborting {
		return
	}
	if m.owner == nil {
		panic("sync: unlock of unlocked mutex")
	}
	m.vc = release(s.cur)
	m.owner = nil
}

type WaitGroup struct {
	n  int
	vc []int
}

func (w *WaitGroup) Add(d int) {
	if s == nil || s.aborting {
		return
	}
	w.n += d
	if w.n < 0 {
		panic("sync: negative WaitGroup counter")
	}
}

func (w *WaitGroup) Done() {
	if s == nil || s.aborting {
		return
	}
	w.vc = maxVC(w.vc, release(s.cur))
	w.Add(-1)
}

func (w *WaitGroup) Wait() {
	if s == nil || s.aborting {
		return
	}
	o := &op{kind: opWait, wg: w, label: caller()}
	block(o)
}

// RWMutex: any number of readers or one writer. Writer preference of the runtime (new readers wait while a writer
// is waiting) is not modelled: the model admits a superset of the real interleavings.
type RWMutex struct {
	writer  *thread
	readers int
	wvc     []int // released by the last writer
	rvc     []int // released by readers
}

func (m *RWMutex) Lock() {
	if s == nil || s.aborting {
		return
	}
	block(&op{kind: opCond, label: "rwmutex-lock @" + caller(),
		cond: func() bool { return m.writer == nil && m.readers == 0 },
		act:  func(t *thread) { m.writer = t; joinVC(t, m.wvc); joinVC(t, m.rvc) }})
}

func (m *RWMutex) Unlock() {
	if s == nil || s.aborting {
		return
	}
	if m.writer == nil {
		panic("sync: Unlock of unlocked RWMutex")
	}
	m.wvc = release(s.cur)
	m.writer = nil
}

func (m *RWMutex) RLock() {
	if s == nil || s.aborting {
		return
	}
	block(&op{kind: opCond, label: "rwmutex-rlock @" + caller(),
		cond: func() bool { return m.writer == nil },
		act:  func(t *thread) { m.readers++; joinVC(t, m.wvc) }})
}

func (m *RWMutex) RUnlock() {
	if s == nil || s.aborting {
		return
	}
	if m.readers <= 0 {
		panic("sync: RUnlock of unlocked RWMutex")
	}
	m.rvc = maxVC(m.rvc, release(s.cur))
	m.readers--
}

// Once: the first caller runs f, the others wait until it has returned.
type Once struct {
	running bool
	done    bool
	vc      []int
}

func (o *Once) Do(f func()) {
	if s == nil || s.aborting {
		return
	}
	first := false
	block(&op{kind: opCond, label: "once @" + caller(),
		cond: func() bool { return !o.running },
		act: func(t *thread) {
			if o.done {
				joinVC(t, o.vc)
				return
			}
			o.running, first = true, true
		}})
	if first {
		defer func() {
			if s != nil && !s.aborting {
				o.vc = release(s.cur)
			}
			o.done, o.running = true, false
		}()
		f()
	}
}

// ---- sync/atomic: every operation is a scheduling point and synchronises (sequentially consistent) through the
// clock kept per atomic variable.

type atomicCell struct{ vc []int }


func atomicPoint(addr interface{}, what string) {
	if s == nil || s.aborting {
		return
	}
	block(&op{kind: opYield, nChoice: 1, label: "atomic-" + what + " @" + caller()})
	c := s.atomics[addr]
	if c == nil {
		c = &atomicCell{}
		s.atomics[addr] = c
	}
	joinVC(s.cur, c.vc)
	c.vc = maxVC(c.vc, release(s.cur))
}

type atomicNum interface {
	~int32 | ~int64 | ~uint32 | ~uint64 | ~uintptr
}

func AtomicLoad[T atomicNum](p *T) T        { atomicPoint(p, "load"); return *p }
func AtomicStore[T atomicNum](p *T, v T)    { atomicPoint(p, "store"); *p = v }
func AtomicAdd[T atomicNum](p *T, d T) T    { atomicPoint(p, "add"); *p += d; return *p }
func AtomicSwap[T atomicNum](p *T, v T) T   { atomicPoint(p, "swap"); o := *p; *p = v; return o }
func AtomicCAS[T atomicNum](p *T, o, n T) bool {
	atomicPoint(p, "cas")
	if *p == o {
		*p = n
		return true
	}
	return false
}

type AtomicNum[T atomicNum] struct{ v T }

func (a *AtomicNum[T]) Load() T                    { return AtomicLoad(&a.v) }
func (a *AtomicNum[T]) Store(v T)                  { AtomicStore(&a.v, v) }
func (a *AtomicNum[T]) Add(d T) T                  { return AtomicAdd(&a.v, d) }
func (a *AtomicNum[T]) Swap(v T) T                 { return AtomicSwap(&a.v, v) }
func (a *AtomicNum[T]) CompareAndSwap(o, n T) bool { return AtomicCAS(&a.v, o, n) }

type AtomicInt32 = AtomicNum[int32]
type AtomicInt64 = AtomicNum[int64]
type AtomicUint32 = AtomicNum[uint32]
type AtomicUint64 = AtomicNum[uint64]
type AtomicUintptr = AtomicNum[uintptr]

type AtomicBool struct{ v bool }

func (a *AtomicBool) Load() bool   { atomicPoint(a, "load"); return a.v }
func (a *AtomicBool) Store(v bool) { atomicPoint(a, "store"); a.v = v }
func (a *AtomicBool) Swap(v bool) bool {
	atomicPoint(a, "swap")
	o := a.v
	a.v = v
	return o
}
func (a *AtomicBool) CompareAndSwap(o, n bool) bool {
	atomicPoint(a, "cas")
	if a.v == o {
		a.v = n
		return true
	}
	return false
}

type AtomicValue struct{ v interface{} }

func (a *AtomicValue) Load() interface{}   { atomicPoint(a, "load"); return a.v }
func (a *AtomicValue) Store(v interface{}) { atomicPoint(a, "store"); a.v = v }
func (a *AtomicValue) Swap(v interface{}) interface{} {
	atomicPoint(a, "swap")
	o := a.v
	a.v = v
	return o
}
func (a *AtomicValue) CompareAndSwap(o, n interface{}) bool {
	atomicPoint(a, "cas")
	if a.v == o {
		a.v = n
		return true
	}
	return false
}

type AtomicPointer[T any] struct{ v *T }

func (a *AtomicPointer[T]) Load() *T   { atomicPoint(a, "load"); return a.v }
func (a *AtomicPointer[T]) Store(v *T) { atomicPoint(a, "store"); a.v = v }
func (a *AtomicPointer[T]) Swap(v *T) *T {
	atomicPoint(a, "swap")
	o := a.v
	a.v = v
	return o
}
func (a *AtomicPointer[T]) CompareAndSwap(o, n *T) bool {
	atomicPoint(a, "cas")
	if a.v == o {
		a.v = n
		return true
	}
	return false
}

// ---- context (T8)

type vctx struct {
	parent   context.Context
	done     chan struct{}
	timedOut bool
	children []*vctx
}

func (c *vctx) Deadline() (time.Time, bool) { return time.Time{}, false }
func (c *vctx) Done() <-chan struct{} {
	if c.done == nil {
		return nil
	}
	return c.done
}
func (c *vctx) Err() error {
	if c.done != nil && s != nil {
		if vc := chanOf(c.done); vc != nil && vc.closed {
			if c.timedOut {
				return context.DeadlineExceeded
			}
			return context.Canceled
		}
	}
	return nil
}
func (c *vctx) Value(key interface{}) interface{} { return nil }

func Background() context.Context { return &vctx{} }

func WithCancel(parent context.Context) (context.Context, context.CancelFunc) {
	c := &vctx{parent: parent, done: make(chan struct{})}
	if s != nil && !s.aborting {
		Name(c.done, "ctx.Done")
		if p, ok := parent.(*vctx); ok && p.done != nil {
			p.children = append(p.children, c)
			if vc := chanOf(p.done); vc != nil && vc.closed {
				c.timedOut = p.timedOut
				c.cancel("cancel(parent already cancelled)@" + caller())
			}
		}
	}
	return c, func() { c.cancel("cancel@" + caller()) }
}

// cancel closes the context's Done channel (idempotent) and then those of the contexts derived from it.
func (c *vctx) cancel(label string) {
	if s == nil || s.aborting {
		return
	}
	if vc := chanOf(c.done); vc == nil || !vc.closed {
		block(&op{kind: opClose, ch: chanOf(c.done), label: label})
	}
	for _, ch := range c.children {
		if vc := chanOf(ch.done); vc != nil && vc.closed {
			continue
		}
		ch.timedOut = c.timedOut
		ch.cancel(label)
	}
}

// ---- time (T8): virtual

var epoch = time.Date(2026, 1, 1, 0, 0, 0, 0, time.UTC)

func Now() time.Time {
	if s == nil {
		return epoch
	}
	return epoch.Add(s.clock)
}

// Since / Until: against the virtual clock (which only advances when a sleeper or timer is resumed).
func Since(t time.Time) time.Duration { return Now().Sub(t) }
func Until(t time.Time) time.Duration { return t.Sub(Now()) }

// Sleep: a yield; the clock advances by d when the thread is resumed.
func Sleep(d time.Duration) { SleepL(d, caller()) }

func SleepL(d time.Duration, label string) {
	if s == nil || s.aborting {
		return
	}
	o := &op{kind: opSleep, dur: d, label: label}
	block(o)
}

// After: a timer pseudo-thread delivers on the returned channel when the scheduler lets it fire.
func After(d time.Duration) <-chan time.Time {
	ch := make(chan time.Time, 1)
	if s == nil || s.aborting {
		return ch
	}
	lbl := caller()
	Name(ch, "timer@"+lbl)
	Go("timer", func() {
		Daemon()
		SleepL(d, "timer@"+lbl)
		Out[time.Time](ch).Send(Now())
	})
	return ch
}

// Timer / Ticker / AfterFunc / Tick: pseudo-threads on the virtual clock, like After.
type Timer struct {
	C      <-chan time.Time
	c      chan time.Time
	gen    int // Stop / Reset outdate the sleeping pseudo-thread of an earlier generation
	active bool
	f      func()
	label  string
}

func newTimer(d time.Duration, f func(), label string) *Timer {
	t := &Timer{f: f, label: label}
	t.c = make(chan time.Time, 1)
	t.C = t.c
	if s != nil && !s.aborting {
		Name(t.c, label)
		t.start(d)
	}
	return t
}

func NewTimer(d time.Duration) *Timer           { return newTimer(d, nil, "timer@"+caller()) }
func AfterFunc(d time.Duration, f func()) *Timer { return newTimer(d, f, "afterfunc@"+caller()) }

func (t *Timer) start(d time.Duration) {
	t.gen++
	g := t.gen
	t.active = true
	Go("timer", func() {
		Daemon()
		SleepL(d, t.label)
		if t.gen != g || !t.active {
			return
		}
		t.active = false
		if t.f != nil {
			t.f()
			return
		}
		Select(true, CaseSend[time.Time](t.c, Now()))
	})
}

func (t *Timer) Stop() bool {
	was := t.active
	t.active = false
	t.gen++
	return was
}

func (t *Timer) Reset(d time.Duration) bool {
	was := t.active
	if s != nil && !s.aborting {
		t.start(d)
	}
	return was
}

type Ticker struct {
	C       <-chan time.Time
	c       chan time.Time
	gen     int
	stopped bool
	label   string
}

func NewTicker(d time.Duration) *Ticker {
	k := &Ticker{label: "ticker@" + caller()}
	k.c = make(chan time.Time, 1)
	k.C = k.c
	if s != nil && !s.aborting {
		Name(k.c, k.label)
		k.start(d)
	}
	return k
}

func (k *Ticker) start(d time.Duration) {
	k.gen++
	g := k.gen
	k.stopped = false
	Go("ticker", func() {
		Daemon()
		s.cur.ticker = true // ticks alone never keep an execution alive (see loop)
		for {
			SleepL(d, k.label)
			if k.gen != g || k.stopped {
				return
			}
			Select(true, CaseSend[time.Time](k.c, Now()))
		}
	})
}

func (k *Ticker) Stop() { k.stopped = true; k.gen++ }
func (k *Ticker) Reset(d time.Duration) {
	if s != nil && !s.aborting {
		k.start(d)
	}
}

func Tick(d time.Duration) <-chan time.Time { return NewTicker(d).C }

// WithTimeout / WithDeadline: WithCancel plus a timer pseudo-thread that cancels.
func WithTimeout(parent context.Context, d time.Duration) (context.Context, context.CancelFunc) {
	ctx, cancel := WithCancel(parent)
	if s != nil && !s.aborting {
		lbl := "ctx-timeout@" + caller()
		c := ctx.(*vctx)
		Go("timer", func() {
			Daemon()
			SleepL(d, lbl)
			if vc := chanOf(c.done); vc != nil && !vc.closed {
				c.timedOut = true
				c.cancel(lbl)
			}
		})
	}
	return ctx, cancel
}

func WithDeadline(parent context.Context, t time.Time) (context.Context, context.CancelFunc) {
	return WithTimeout(parent, Until(t))
}

// ---- map iteration order (T11)

// MapKeys returns the keys of m in a scheduler-chosen order (canonical order permuted by explicit choices).
func MapKeys[K comparable, V any](m map[K]V) []K {
	ks := make([]K, 0, len(m))
	for k := range m {
		ks = append(ks, k)
	}
	sort.Slice(ks, func(i, j int) bool { return fmt.Sprint(ks[i]) < fmt.Sprint(ks[j]) })
	if s == nil || s.aborting || !mapOrderOn {
		return ks
	}
	lbl := "maporder@" + caller()
	for i := 0; i < len(ks)-1; i++ {
		j := i + Choose(len(ks)-i, lbl)
		ks[i], ks[j] = ks[j], ks[i]
	}
	return ks
}

var mapOrderOn = true

// SysRoot is prefixed to /sys paths of instrumented code (T10).
var SysRoot = ""


// ---------------------------------------------------------------- state fingerprint (for pruning in Explore)

func mix(h, v uint64) uint64 {
	h ^= v + 0x9e3779b97f4a7c15 + (h << 6) + (h >> 2)
	return h * 1099511628211
}

func hashStr(x string) uint64 {
	var h uint64 = 1469598103934665603
	for i := 0; i < len(x); i++ {
		h ^= uint64(x[i])
		h *= 1099511628211
	}
	return h
}

// stateKey: two scheduling points with equal keys have identical futures, provided every thread is a
// deterministic function of the results of its own operations (no real time, randomness or unordered
// map iteration influences its synchronisation behaviour): per-thread local state = hash of its
// completed (operation, result) sequence; shared state = channel buffers (in order), the ordered
// observation list, the running thread, sleep budgets, the tear-down flag. Mutex owners, wait-group
// counters and the virtual clock are functions of the thread histories.
func (sc *sched) stateKey() uint64 {
	k := sc.obsHash
	var acc uint64 // commutative combination: independent of thread / channel creation order
	for _, t := range sc.threads {
		if t.sidHash == 0 {
			t.sidHash = hashStr(t.sid)
		}
		h := t.hist
		if t.finished {
			h = mix(h, 7)
		} else if p := t.pending; p != nil {
			if p.descHash == 0 {
				d := describe(p)
				if p.kind == opSend {
					d += fmt.Sprintf("|%v", p.val)
				}
				for _, c := range p.cases {
					if c.isSend {
						d += fmt.Sprintf("|%v", c.val)
					}
				}
				p.descHash = hashStr(d) | 1
			}
			h = mix(h, p.descHash)
			if p.done {
				h = mix(h, hashStr(fmt.Sprintf("%v|%v|%d", p.rval, p.rok, p.chosen)))
			}
		}
		acc += mix(t.sidHash, h)
	}
	for _, c := range sc.chans {
		if c.sidHash == 0 {
			c.sidHash = hashStr("c:" + c.sid)
		}
		if c.dirty {
			c.bufHash = hashStr(fmt.Sprintf("%v|%v", c.closed, c.buf))
			c.dirty = false
		}
		acc += mix(c.sidHash, c.bufHash)
	}
	k = mix(k, acc)
	if sc.cur != nil {
		k = mix(k, sc.cur.sidHash+1)
	}
	if sc.final {
		k = mix(k, 99)
	}
	for l, n := range sc.sleepBudget {
		k += mix(hashStr(l), uint64(n)+1) // commutative
	}
	return k
}
