//go:build verif

package main

import (
	"fmt"
	"strings"
)

var pv = map[byte]int{'c': 0, 'd': 2, 'e': 4, 'f': 5, 'g': 7, 'a': 9, 'b': 11}

func noteNum(name string) int {
	s := strings.ToLower(name)
	v := pv[s[0]]
	s = s[1:]
	if s[0] == '#' {
		v++
		s = s[1:]
	}
	var o int
	fmt.Sscanf(s, "%d", &o)
	return (o+2)*12 + v
}

func kn(key string, note string, off *int) KeyEnt {
	var n int
	if note[0] >= '0' && note[0] <= '9' {
		fmt.Sscanf(note, "%d", &n)
	} else {
		n = noteNum(note)
	}
	return KeyEnt{Key: key, Code: code(key), Note: note, NoteV: n, Offset: off}
}

func ax(name, typ string) AxEnt { return AxEnt{Axis: name, Code: code(name), Type: typ} }

func baseDesc() *Desc {
	d := &Desc{Mode: "interrupt", Exit: []string{"KEY_LEFTALT", "KEY_ESC"}, Channel: 1, Velocity: 64, DefMap: "Main",
		Actions: [][2]string{{"KEY_ESC", "panic"}, {"KEY_F1", "octave_down"}, {"KEY_F2", "octave_up"}},
		Colors:  [7]int{0x010203, 0x040506, 0x070809, 0x0a0b0c, 0x0d0e0f, 0xfffefd, 0x80ff01}}
	cc := ax("ABS_X", "cc")
	cc.CC = ip(1)
	bend := ax("ABS_Y", "pitch_bend")
	bi := ax("ABS_RX", "cc")
	bi.CC, bi.CCNeg = ip(2), ip(3)
	key := ax("ABS_HAT0X", "key")
	key.Note, key.NoteNeg = ip(60), ip(62)
	act := ax("ABS_HAT0Y", "action")
	act.Action, act.ActionNeg = sp("octave_up"), sp("octave_down")
	d.Mappings = []Mapping{{Name: "Main",
		Keys: []KeySub{{Name: "", Keys: []KeyEnt{kn("KEY_A", "60", nil), kn("KEY_S", "c#3", nil), kn("x2e", "61", ip(2))}}},
		Axes: []AxSub{{Name: "", DefaultDZ: fp(0.1), Axes: []AxEnt{cc, bend, bi, key, act}, Deadzones: map[string]float64{"ABS_X": 0.2}}},
	}}
	return d
}

type variant struct {
	name  string
	apply func(d *Desc)
}

func axisVariants(full bool) []variant {
	var vs []variant
	offs := []*int{nil, ip(0), ip(3)}
	bools := []*bool{nil, bp(true), bp(false)}
	if !full {
		bools = []*bool{nil, bp(true)}
	}
	set := func(name string, a AxEnt) variant {
		return variant{name, func(d *Desc) {
			// replace the axis of the same name in the base, or append
			as := &d.Mappings[0].Axes[0]
			for i := range as.Axes {
				if as.Axes[i].Axis == a.Axis {
					as.Axes[i] = a
					return
				}
			}
			as.Axes = append(as.Axes, a)
		}}
	}
	on := func(p *int) string {
		if p == nil {
			return "-"
		}
		return fmt.Sprint(*p)
	}
	bn := func(p *bool) string {
		if p == nil {
			return "-"
		}
		return fmt.Sprint(*p)
	}
	for _, neg := range []*int{nil, ip(0), ip(119)} {
		for _, o := range offs {
			for _, on2 := range offs {
				for _, fl := range bools {
					for _, dz := range bools {
						a := ax("ABS_Z", "cc")
						a.CC, a.CCNeg, a.Off, a.OffNeg, a.Flip, a.DZC = ip(119), neg, o, on2, fl, dz
						vs = append(vs, set(fmt.Sprintf("axis-cc ccneg=%s off=%s offneg=%s flip=%s dzc=%s", on(neg), on(o), on(on2), bn(fl), bn(dz)), a))
						k := ax("ABS_RZ", "key")
						k.Note, k.NoteNeg, k.Off, k.OffNeg, k.Flip, k.DZC = ip(127), neg, o, on2, fl, dz
						if neg != nil && *neg == 119 {
							k.NoteNeg = ip(0)
						}
						vs = append(vs, set(fmt.Sprintf("axis-key noteneg=%s off=%s offneg=%s flip=%s dzc=%s", on(k.NoteNeg), on(o), on(on2), bn(fl), bn(dz)), k))
					}
				}
			}
		}
	}
	for _, o := range []*int{nil, ip(0), ip(15)} {
		for _, fl := range bools {
			for _, dz := range bools {
				a := ax("ABS_THROTTLE", "pitch_bend")
				a.Off, a.Flip, a.DZC = o, fl, dz
				vs = append(vs, set(fmt.Sprintf("axis-bend off=%s flip=%s dzc=%s", on(o), bn(fl), bn(dz)), a))
			}
		}
	}
	for _, an := range []*string{nil, sp("mapping_down"), sp("cc_learning")} {
		for _, fl := range bools {
			for _, dz := range bools {
				a := ax("ABS_RUDDER", "action")
				a.Action, a.ActionNeg, a.Flip, a.DZC = sp("mapping_up"), an, fl, dz
				n := "-"
				if an != nil {
					n = *an
				}
				vs = append(vs, set(fmt.Sprintf("axis-action neg=%s flip=%s dzc=%s", n, bn(fl), bn(dz)), a))
			}
		}
	}
	// axis given by hex code
	h := ax("x05", "cc")
	h.CC = ip(7)
	vs = append(vs, set("axis-hex-code", h))
	return vs
}

var allActions = []string{"mapping_up", "mapping_down", "mapping", "octave_up", "octave_down", "semitone_up", "semitone_down", "channel_up", "channel_down", "channel", "multinote", "panic", "cc_learning", "exit"}

func sections(full bool) map[string][]variant {
	s := map[string][]variant{}
	for _, m := range []string{"off", "no_repeat", "interrupt", "retrigger"} {
		m := m
		s["mode"] = append(s["mode"], variant{"mode=" + m, func(d *Desc) { d.Mode = m }})
	}
	for _, e := range [][]string{{}, {"KEY_Q"}, {"KEY_Q", "x1f"}, {"x10", "KEY_ESC", "KEY_F2"}} {
		e := e
		s["exit"] = append(s["exit"], variant{fmt.Sprintf("exit=%v", e), func(d *Desc) { d.Exit = e }})
	}
	s["id"] = []variant{
		{"id=zero", func(d *Desc) {}},
		{"id=nonzero", func(d *Desc) { d.Bus, d.Vendor, d.Product, d.Version = 3, 0x54c, 0x9cc, 0x8111 }},
		{"id=max+uniq", func(d *Desc) {
			d.Bus, d.Vendor, d.Product, d.Version = 65535, 65535, 65535, 65535
			d.Uniq = sp("aa:bb:cc")
		}},
		{"id=empty-uniq", func(d *Desc) { d.Uniq = sp("") }},
	}
	for _, o := range []int{0, 3, -2, 127, -128} {
		o := o
		s["defaults"] = append(s["defaults"], variant{fmt.Sprintf("octave=%d", o), func(d *Desc) { d.Octave = o }})
		s["defaults"] = append(s["defaults"], variant{fmt.Sprintf("semitone=%d", o), func(d *Desc) { d.Semitone = o }})
	}
	for _, c := range []int{1, 2, 16} {
		c := c
		s["defaults"] = append(s["defaults"], variant{fmt.Sprintf("channel=%d", c), func(d *Desc) { d.Channel = c }})
	}
	for _, v := range []int{0, 1, 64, 127} {
		v := v
		s["defaults"] = append(s["defaults"], variant{fmt.Sprintf("velocity=%d", v), func(d *Desc) { d.Velocity = v }})
	}
	s["actions"] = []variant{
		{"actions=none", func(d *Desc) { d.Actions = nil }},
		{"actions=all", func(d *Desc) {
			d.Actions = nil
			for i, a := range allActions {
				k := fmt.Sprintf("KEY_F%d", i+1)
				if i%3 == 2 {
					k = fmt.Sprintf("x%x", 0x100+i)
				}
				d.Actions = append(d.Actions, [2]string{k, a})
			}
		}},
		{"actions=btn", func(d *Desc) { d.Actions = [][2]string{{"BTN_SELECT", "channel_down"}, {"BTN_TL", "cc_learning"}} }},
	}
	s["colors"] = []variant{
		{"colors=zero", func(d *Desc) { d.Colors = [7]int{} }},
		{"colors=max", func(d *Desc) { d.Colors = [7]int{0xffffff, 0xff0000, 0x00ff00, 0x0000ff, 0x123456, 0xabcdef, 0x0f0f0f} }},
	}
	// mappings: count, default first/last, sub-handlers
	second := func() Mapping {
		return Mapping{Name: "Second", Keys: []KeySub{{Name: "", Keys: []KeyEnt{kn("KEY_A", "0", nil), kn("KEY_D", "g8", ip(15))}}, {Name: "Touchpad", Keys: []KeyEnt{kn("BTN_LEFT", "127", ip(0))}}}}
	}
	s["mappings"] = []variant{
		{"mappings=2 default-first", func(d *Desc) { d.Mappings = append(d.Mappings, second()) }},
		{"mappings=2 default-last", func(d *Desc) { d.Mappings = append(d.Mappings, second()); d.DefMap = "Second" }},
		{"mappings=3 empty-third", func(d *Desc) {
			d.Mappings = append(d.Mappings, second(), Mapping{Name: "Control"})
			d.DefMap = "Control"
		}},
		{"mappings=analog-only", func(d *Desc) { d.Mappings[0].Keys = nil }},
		{"mappings=keys-only", func(d *Desc) { d.Mappings[0].Axes = nil }},
		{"mappings=two-analog-subhandlers", func(d *Desc) {
			a := ax("ABS_X", "cc")
			a.CC = ip(9)
			d.Mappings[0].Axes = append(d.Mappings[0].Axes, AxSub{Name: "Touchpad", Axes: []AxEnt{a}, Deadzones: map[string]float64{"ABS_X": 0.5, "ABS_Y": 0}})
		}},
	}
	// key entries
	var keyVars []variant
	for _, sp2 := range [][2]string{{"KEY_Z", "name"}, {"x2d", "hex"}, {"BTN_A", "btn"}, {"xffff", "hexmax"}} {
		for _, nt := range []string{"0", "127", "c-2", "g8", "C#3", "a#-1", "B7", "f0"} {
			for _, off := range []*int{nil, ip(0), ip(15)} {
				k, nt, off := sp2[0], nt, off
				o := "-"
				if off != nil {
					o = fmt.Sprint(*off)
				}
				keyVars = append(keyVars, variant{fmt.Sprintf("key %s(%s) note=%s off=%s", sp2[1], k, nt, o), func(d *Desc) {
					d.Mappings[0].Keys[0].Keys = append(d.Mappings[0].Keys[0].Keys, kn(k, nt, off))
				}})
			}
		}
	}
	// numbers are decimal however they are padded: "010" is ten, "060,012" is note 60 with offset 12
	for _, sp3 := range [][3]string{{"007", "", ""}, {"010", "", ""}, {"0127", "", ""}, {"060", "012", "12"}, {"0100", "08", "8"}, {"64", "015", "15"}, {"00", "00", "0"}} {
		sp3 := sp3
		keyVars = append(keyVars, variant{fmt.Sprintf("key padded number note=%s off=%s", sp3[0], sp3[1]), func(d *Desc) {
			k := kn("KEY_Z", sp3[0], nil)
			if sp3[1] != "" {
				var o int
				fmt.Sscanf(sp3[2], "%d", &o)
				k.Offset, k.OffStr = ip(o), sp3[1]
			}
			d.Mappings[0].Keys[0].Keys = append(d.Mappings[0].Keys[0].Keys, k)
		}})
	}
	s["keys"] = keyVars
	s["axes"] = axisVariants(full)
	s["deadzones"] = []variant{
		{"dz=none", func(d *Desc) { d.Mappings[0].Axes[0].DefaultDZ = nil; d.Mappings[0].Axes[0].Deadzones = nil }},
		{"dz=default-only", func(d *Desc) { d.Mappings[0].Axes[0].Deadzones = nil }},
		{"dz=axis-only", func(d *Desc) { d.Mappings[0].Axes[0].DefaultDZ = nil }},
		{"dz=many", func(d *Desc) {
			d.Mappings[0].Axes[0].DefaultDZ = fp(0.99)
			d.Mappings[0].Axes[0].Deadzones = map[string]float64{"ABS_X": 0, "ABS_Y": 0.5, "ABS_RX": 1, "x07": 0.25}
		}},
	}
	return s
}

type invalidation struct {
	name  string
	apply func(d *Desc) bool // false: not applicable to this description
}

func firstAxis(d *Desc, typ string) *AxEnt {
	for mi := range d.Mappings {
		for si := range d.Mappings[mi].Axes {
			for ai := range d.Mappings[mi].Axes[si].Axes {
				if d.Mappings[mi].Axes[si].Axes[ai].Type == typ {
					return &d.Mappings[mi].Axes[si].Axes[ai]
				}
			}
		}
	}
	return nil
}

func firstKeys(d *Desc) *KeySub {
	for mi := range d.Mappings {
		if len(d.Mappings[mi].Keys) > 0 && len(d.Mappings[mi].Keys[0].Keys) > 0 {
			return &d.Mappings[mi].Keys[0]
		}
	}
	return nil
}

func invalidations() []invalidation {
	var iv []invalidation
	add := func(n string, f func(d *Desc) bool) { iv = append(iv, invalidation{n, f}) }
	add("unknown top-level field", func(d *Desc) bool { d.topExtra = "bogus_field = 1\n"; return true })
	add("unknown field in [defaults]", func(d *Desc) bool { d.defaultsExtra = "volume = 3\n"; return true })
	add("unknown field in [[mapping]]", func(d *Desc) bool { d.Mappings[0].extra = "colour = \"red\"\n"; return true })
	add("unknown field in an analog entry", func(d *Desc) bool {
		a := firstAxis(d, "cc")
		if a == nil {
			return false
		}
		a.extra = "curve = 2"
		return true
	})
	add("unknown collision mode", func(d *Desc) bool { d.Mode = "sometimes"; return true })
	add("empty collision mode", func(d *Desc) bool { d.Mode = ""; return true })
	add("default mapping that does not exist", func(d *Desc) bool { d.DefMap = "Nope"; return true })
	for _, v := range []int{128, -1, 1000} {
		v := v
		add(fmt.Sprintf("velocity %d", v), func(d *Desc) bool { d.Velocity = v; return true })
	}
	for _, v := range []int{0, 17, -1, 256, 257} {
		v := v
		add(fmt.Sprintf("default channel %d", v), func(d *Desc) bool { d.Channel = v; return true })
	}
	add("unknown key name in a key map", func(d *Desc) bool {
		k := firstKeys(d)
		if k == nil {
			return false
		}
		k.Keys = append(k.Keys, KeyEnt{Key: "KEY_NOPE", Note: "60"})
		return true
	})
	add("bad hex key code in a key map", func(d *Desc) bool {
		k := firstKeys(d)
		if k == nil {
			return false
		}
		k.Keys = append(k.Keys, KeyEnt{Key: "xZZ", Note: "60"})
		return true
	})
	add("ABS name used as a key", func(d *Desc) bool {
		k := firstKeys(d)
		if k == nil {
			return false
		}
		k.Keys = append(k.Keys, KeyEnt{Key: "ABS_X", Note: "60"})
		return true
	})
	for _, n := range []string{"h3", "e#3", "b#2", "c9", "c-3", "g#8", "128", "-1", "c", "3", "c3x", "cc3", "",
		"0177", "0200", "0x3c", "0X10", "0b11", "0o17", "1_0", "6e1", "60.0", " 60", "60 ", "60,", ",1"} {
		n := n
		if n == "3" {
			continue // a plain number is a valid note
		}
		add(fmt.Sprintf("note %q in a key map", n), func(d *Desc) bool {
			k := firstKeys(d)
			if k == nil {
				return false
			}
			k.Keys = append(k.Keys, KeyEnt{Key: "KEY_P", Note: n})
			return true
		})
	}
	for _, o := range []int{16, -1, 255, 256} {
		o := o
		add(fmt.Sprintf("key channel offset %d", o), func(d *Desc) bool {
			k := firstKeys(d)
			if k == nil {
				return false
			}
			k.Keys = append(k.Keys, KeyEnt{Key: "KEY_P", Note: "60", Offset: ip(o)})
			return true
		})
	}
	for _, o := range []string{"016", "017", "020", "0x1", "0b1", "0o7", "0_1", "1e0", "1.0", " 1", "+1x"} {
		o := o
		add(fmt.Sprintf("key channel offset spelled %q", o), func(d *Desc) bool {
			k := firstKeys(d)
			if k == nil {
				return false
			}
			k.Keys = append(k.Keys, KeyEnt{Key: "KEY_P", Note: "60", Offset: ip(0), OffStr: o})
			return true
		})
	}
	add("key value with three comma fields", func(d *Desc) bool {
		k := firstKeys(d)
		if k == nil {
			return false
		}
		k.Keys = append(k.Keys, KeyEnt{Key: "KEY_P", Note: "60,1,2"})
		return true
	})
	add("non-numeric key channel offset", func(d *Desc) bool {
		k := firstKeys(d)
		if k == nil {
			return false
		}
		k.Keys = append(k.Keys, KeyEnt{Key: "KEY_P", Note: "60,x"})
		return true
	})
	add("unknown key in action_mapping", func(d *Desc) bool { d.Actions = append(d.Actions, [2]string{"KEY_NOPE", "panic"}); return true })
	add("unknown action in action_mapping", func(d *Desc) bool { d.Actions = append(d.Actions, [2]string{"KEY_F9", "self_destruct"}); return true })
	add("empty action in action_mapping", func(d *Desc) bool { d.Actions = append(d.Actions, [2]string{"KEY_F9", ""}); return true })
	add("unknown key in exit_sequence", func(d *Desc) bool { d.Exit = append(append([]string{}, d.Exit...), "KEY_NOPE"); return true })
	add("unknown axis name in an analog map", func(d *Desc) bool {
		if len(d.Mappings[0].Axes) == 0 {
			return false
		}
		a := AxEnt{Axis: "ABS_NOPE", Type: "cc", CC: ip(1)}
		d.Mappings[0].Axes[0].Axes = append(d.Mappings[0].Axes[0].Axes, a)
		return true
	})
	add("unknown axis name in deadzones", func(d *Desc) bool {
		if len(d.Mappings[0].Axes) == 0 {
			return false
		}
		dz := map[string]float64{"ABS_NOPE": 0.1}
		for k, v := range d.Mappings[0].Axes[0].Deadzones {
			dz[k] = v
		}
		d.Mappings[0].Axes[0].Deadzones = dz
		return true
	})
	for _, t := range []string{"slider", "", "CC", "note"} {
		t := t
		add(fmt.Sprintf("analog mapping type %q", t), func(d *Desc) bool {
			a := firstAxis(d, "cc")
			if a == nil {
				return false
			}
			a.Type = t
			return true
		})
	}
	add("cc axis without cc", func(d *Desc) bool {
		a := firstAxis(d, "cc")
		if a == nil {
			return false
		}
		a.CC = nil
		return true
	})
	add("key axis without note", func(d *Desc) bool {
		a := firstAxis(d, "key")
		if a == nil {
			return false
		}
		a.Note = nil
		return true
	})
	add("action axis without action", func(d *Desc) bool {
		a := firstAxis(d, "action")
		if a == nil {
			return false
		}
		a.Action = nil
		return true
	})
	for _, v := range []int{-1, 128, 256, 1000} { // 120-127 (channel-mode numbers) are deliberately not judged
		v := v
		add(fmt.Sprintf("cc %d", v), func(d *Desc) bool {
			a := firstAxis(d, "cc")
			if a == nil {
				return false
			}
			a.CC = ip(v)
			return true
		})
		add(fmt.Sprintf("cc_negative %d", v), func(d *Desc) bool {
			a := firstAxis(d, "cc")
			if a == nil {
				return false
			}
			a.CCNeg = ip(v)
			return true
		})
	}
	for _, v := range []int{128, -1, 256} {
		v := v
		add(fmt.Sprintf("axis note %d", v), func(d *Desc) bool {
			a := firstAxis(d, "key")
			if a == nil {
				return false
			}
			a.Note = ip(v)
			return true
		})
		add(fmt.Sprintf("axis note_negative %d", v), func(d *Desc) bool {
			a := firstAxis(d, "key")
			if a == nil {
				return false
			}
			a.NoteNeg = ip(v)
			return true
		})
	}
	for _, typ := range []string{"cc", "key", "pitch_bend"} {
		for _, v := range []int{16, -1, 99, 255, 256} {
			typ, v := typ, v
			add(fmt.Sprintf("%s axis channel_offset %d", typ, v), func(d *Desc) bool {
				a := firstAxis(d, typ)
				if a == nil {
					return false
				}
				a.Off = ip(v)
				return true
			})
			if typ != "pitch_bend" {
				add(fmt.Sprintf("%s axis channel_offset_negative %d", typ, v), func(d *Desc) bool {
					a := firstAxis(d, typ)
					if a == nil {
						return false
					}
					if typ == "cc" && a.CCNeg == nil {
						a.CCNeg = ip(5)
					}
					if typ == "key" && a.NoteNeg == nil {
						a.NoteNeg = ip(5)
					}
					a.OffNeg = ip(v)
					return true
				})
			}
		}
	}
	add("unknown analog action", func(d *Desc) bool {
		a := firstAxis(d, "action")
		if a == nil {
			return false
		}
		a.Action = sp("bogus")
		return true
	})
	add("unknown analog action_negative", func(d *Desc) bool {
		a := firstAxis(d, "action")
		if a == nil {
			return false
		}
		a.ActionNeg = sp("bogus")
		return true
	})
	return iv
}

func generate(tier string) {
	full := tier == "thorough"
	secs := sections(full)
	names := []string{"mode", "exit", "id", "defaults", "actions", "colors", "mappings", "keys", "axes", "deadzones"}
	ivs := invalidations()
	var bases []variant
	bases = append(bases, variant{"base", func(d *Desc) {}})
	// (1) every section expanded completely
	for _, n := range names {
		bases = append(bases, secs[n]...)
	}
	for _, v := range bases {
		d := baseDesc()
		v.apply(d)
		checkValid(d, v.name)
	}
	// (2) pairwise across sections (reduced lists for the two big sections)
	reduce := func(vs []variant, n int) []variant {
		if len(vs) <= n {
			return vs
		}
		step := len(vs) / n
		var out []variant
		for i := 0; i < len(vs); i += step {
			out = append(out, vs[i])
		}
		return out
	}
	lim := 6
	if full {
		lim = 1 << 20 // complete pairwise product
	}
	for i := 0; i < len(names); i++ {
		for j := i + 1; j < len(names); j++ {
			for _, a := range reduce(secs[names[i]], lim) {
				for _, b := range reduce(secs[names[j]], lim) {
					d := baseDesc()
					func() {
						defer func() {
							if r := recover(); r != nil {
								d = nil // the two variants do not compose (e.g. removed the section the other one edits)
							}
						}()
						a.apply(d)
						b.apply(d)
					}()
					if d != nil {
						checkValid(d, a.name+" + "+b.name)
					}
				}
			}
		}
	}
	// (2b) thorough: three sections at a time (reduced lists)
	if full {
		for i := 0; i < len(names); i++ {
			for j := i + 1; j < len(names); j++ {
				for k := j + 1; k < len(names); k++ {
					for _, a := range reduce(secs[names[i]], 5) {
						for _, b := range reduce(secs[names[j]], 5) {
							for _, c := range reduce(secs[names[k]], 5) {
								d := baseDesc()
								func() {
									defer func() {
										if r := recover(); r != nil {
											d = nil
										}
									}()
									a.apply(d)
									b.apply(d)
									c.apply(d)
								}()
								if d != nil {
									checkValid(d, a.name+" + "+b.name+" + "+c.name)
								}
							}
						}
					}
				}
			}
		}
	}
	// (2c) ill-typed scalars: every scalar line of the base and of one fully populated description
	{
		d := baseDesc()
		checkIllTyped(d, "base")
		for _, n := range []string{"axes", "colors", "defaults"} {
			if vs := secs[n]; len(vs) > 0 {
				d := baseDesc()
				vs[len(vs)-1].apply(d)
				checkIllTyped(d, vs[len(vs)-1].name)
			}
		}
	}
	// (3) every single-field invalidation of every base (thorough) / of a spread of bases (quick)
	ib := bases
	for _, v := range ib {
		for _, inv := range ivs {
			d := baseDesc()
			ok := true
			func() {
				defer func() {
					if r := recover(); r != nil {
						ok = false
					}
				}()
				v.apply(d)
				ok = inv.apply(d)
			}()
			if ok {
				checkInvalid(d, inv.name+"@"+v.name)
			}
		}
	}
}
