//go:build verif

package main

import (
	"fmt"
	"sort"
	"strings"

	"github.com/gethiox/HIDI/internal/pkg/input"
	"github.com/gethiox/HIDI/internal/pkg/midi"
	"github.com/gethiox/HIDI/internal/pkg/midi/device"
	"github.com/holoplot/go-evdev"
)

const (
	kOn = iota
	kOff
	kCC
	kPB
	kBad
)

type pmsg struct{ kind, ch, a, b int }

func parse(m midi.Event) pmsg {
	if len(m) != 3 {
		return pmsg{kind: kBad}
	}
	ch, a, b := int(m[0]&0x0f), int(m[1]), int(m[2])
	switch m[0] & 0xf0 {
	case 0x90:
		if b > 0 {
			return pmsg{kOn, ch, a, b}
		}
		return pmsg{kOff, ch, a, 0}
	case 0x80:
		return pmsg{kOff, ch, a, b}
	case 0xb0:
		return pmsg{kCC, ch, a, b}
	case 0xe0:
		return pmsg{kPB, ch, a | b<<7, 0}
	}
	return pmsg{kind: kBad}
}

func (s *Scenario) isNoteKey(sym *Sym) bool { return !sym.IsAxis && sym.Action == "" }

// ---------------------------------------------------------------- C05 well-formedness (always on)

type wellFormed struct{}

func (wellFormed) Step(c *StepCtx) {
	for _, m := range c.Msgs {
		ok := len(m) == 3 && m[1] < 128 && m[2] < 128
		if ok {
			switch m[0] & 0xf0 {
			case 0x80, 0x90, 0xb0, 0xe0:
			default:
				ok = false
			}
		}
		if !ok {
			c.viol("malformed-message", fmt.Sprintf("emitted message [% x] is not a valid 3-byte NoteOn/NoteOff/CC/PitchBend channel message", []byte(m)))
			return
		}
	}
}
func (wellFormed) Key(*strings.Builder)    {}
func (w wellFormed) Clone(*worker) Monitor { return w }

// ---------------------------------------------------------------- C01 receiver + quiescence

type receiver struct {
	sounding map[[2]byte]bool
}

func newReceiver() *receiver { return &receiver{sounding: map[[2]byte]bool{}} }

func (r *receiver) Clone(*worker) Monitor {
	n := newReceiver()
	for k := range r.sounding {
		n.sounding[k] = true
	}
	return n
}

func (r *receiver) Key(b *strings.Builder) {
	ks := make([]int, 0, len(r.sounding))
	for k := range r.sounding {
		ks = append(ks, int(k[0])<<8|int(k[1]))
	}
	sort.Ints(ks)
	fmt.Fprintf(b, "snd%v", ks)
}

func (s *Scenario) quiescent(ref Ref, drv Drv) bool {
	if drv.Held != 0 {
		return false
	}
	for i := range s.Alpha {
		if !s.Alpha[i].IsAxis {
			continue
		}
		a := s.axisDesc[i]
		if a == nil || a.Type != "key" {
			continue
		}
		pi := drv.Axis[s.axisOrd[i]]
		if pi < 0 {
			continue
		}
		v := KeyEmuValue(a, s.Alpha[i].Pos[pi])
		lim := rat(49, 100)
		if v.Cmp(lim) >= 0 || v.Cmp(new(bigRat).Neg(lim)) <= 0 {
			return false
		}
	}
	return true
}

func (r *receiver) Step(c *StepCtx) {
	rr := recv{sounding: r.sounding}
	for _, m := range c.Msgs {
		rr.apply(m)
	}
	if c.S.quiescent(c.Post, c.PostDrv) && len(r.sounding) > 0 {
		ks := []string{}
		for k := range r.sounding {
			ks = append(ks, fmt.Sprintf("ch%d/%d", k[0]+1, k[1]))
		}
		sort.Strings(ks)
		c.viol("stuck-note-at-quiescence", fmt.Sprintf("no key or key-emulating axis is held, yet the receiver still has %v sounding", ks))
	}
}

// ---------------------------------------------------------------- C02 pairing, silent actions

type pairing struct {
	pair      map[int][2]int // held note key (alphabet index) -> (ch,pitch); pitch -1 = press produced/should produce nothing
	cnt       map[[2]int]int // holders per (ch,pitch)
	panicHeld uint64         // keys that were down when panic fired: their release may be silent ("at most a redundant Note Off")
}

func newPairing() *pairing { return &pairing{pair: map[int][2]int{}, cnt: map[[2]int]int{}} }
func (p *pairing) Clone(*worker) Monitor {
	n := newPairing()
	for k, v := range p.pair {
		n.pair[k] = v
	}
	for k, v := range p.cnt {
		n.cnt[k] = v
	}
	n.panicHeld = p.panicHeld
	return n
}
func (p *pairing) Key(b *strings.Builder) { fmt.Fprintf(b, "pair%v%v%x", p.pair, p.cnt, p.panicHeld) }

func (p *pairing) Step(c *StepCtx) {
	sym := c.Sym
	if sym.IsAxis || c.Ev.Val == 2 {
		return
	}
	if sym.Action != "" {
		if sym.Action == "panic" && c.Ev.Val == 1 {
			for k, q := range p.pair {
				if q[0] == c.Pre.Ch { // panic silences the CURRENT channel only: a key sounding elsewhere still owes its Note Off
					p.panicHeld |= 1 << uint(k)
				}
			}
			return
		}
		if len(c.Msgs) > 0 {
			c.viol("action-emits-midi", fmt.Sprintf("%s (action %s) emitted %d MIDI message(s); state-changing actions must be silent", c.Ev.String(c.S.Alpha), sym.Action, len(c.Msgs)))
		}
		return
	}
	switch c.Ev.Val {
	case 1:
		ch, pitch, ok := c.Pre.KeyPair(c.S.D, sym.Name)
		exp := [2]int{ch, pitch}
		if !ok {
			exp = [2]int{-1, -1}
		}
		for _, m := range c.Msgs { // prefer the pair actually sent
			if pm := parse(m); pm.kind == kOn {
				exp = [2]int{pm.ch, pm.a}
			}
		}
		p.pair[c.Ev.Sym] = exp
		if exp[1] >= 0 {
			p.cnt[exp]++
		}
	case 0:
		exp, had := p.pair[c.Ev.Sym]
		delete(p.pair, c.Ev.Sym)
		if !had {
			exp = [2]int{-1, -1}
		}
		// a Note Off is due when this key is the last holder of its pitch (every release in mode off)
		due := false
		if exp[1] >= 0 {
			due = c.S.D.Mode == "off" || p.cnt[exp] == 1
			if p.cnt[exp] <= 1 {
				delete(p.cnt, exp)
			} else {
				p.cnt[exp]--
			}
		}
		exempt := p.panicHeld&(1<<uint(c.Ev.Sym)) != 0
		p.panicHeld &^= 1 << uint(c.Ev.Sym)
		if due && !exempt && len(c.Msgs) == 0 {
			c.viol("release-without-noteoff", fmt.Sprintf("the press of %s sounded ch%d/%d and this release is the one that must end it, but no Note Off was emitted", sym.Name, exp[0]+1, exp[1]))
			return
		}
		n := 0
		for _, m := range c.Msgs {
			pm := parse(m)
			if pm.kind != kOff {
				c.viol("release-emits-non-noteoff", fmt.Sprintf("release of %s emitted [% x]", sym.Name, []byte(m)))
				return
			}
			n++
			if exp[1] < 0 {
				c.viol("release-of-silent-press-emits", fmt.Sprintf("release of %s emitted NoteOff ch%d/%d although its press produced no note", sym.Name, pm.ch+1, pm.a))
				return
			}
			if pm.ch != exp[0] || pm.a != exp[1] {
				c.viol("noteoff-not-pinned-to-press", fmt.Sprintf("release of %s emitted NoteOff ch%d/%d, but its press sounded ch%d/%d", sym.Name, pm.ch+1, pm.a, exp[0]+1, exp[1]))
				return
			}
		}
		if n > 1 {
			c.viol("release-emits-several-noteoffs", fmt.Sprintf("release of %s emitted %d NoteOffs", sym.Name, n))
		}
	}
}

// ---------------------------------------------------------------- C03 collision modes

type collision struct {
	cnt  map[[2]int]int
	pair map[int][2]int
}

func newCollision() *collision { return &collision{cnt: map[[2]int]int{}, pair: map[int][2]int{}} }
func (p *collision) Clone(*worker) Monitor {
	n := newCollision()
	for k, v := range p.cnt {
		n.cnt[k] = v
	}
	for k, v := range p.pair {
		n.pair[k] = v
	}
	return n
}
func (p *collision) Key(b *strings.Builder) { fmt.Fprintf(b, "col%v%v", p.cnt, p.pair) }

func semList(ms []midi.Event) []string {
	out := []string{}
	for _, m := range ms {
		pm := parse(m)
		switch pm.kind {
		case kOn:
			out = append(out, fmt.Sprintf("On ch%d/%d", pm.ch+1, pm.a))
		case kOff:
			out = append(out, fmt.Sprintf("Off ch%d/%d", pm.ch+1, pm.a))
		default:
			out = append(out, fmt.Sprintf("other[% x]", []byte(m)))
		}
	}
	return out
}

func (p *collision) Step(c *StepCtx) {
	sym := c.Sym
	if sym.IsAxis || sym.Action != "" || c.Ev.Val == 2 {
		return
	}
	mode := c.S.D.Mode
	var exp []string
	on := func(q [2]int) string { return fmt.Sprintf("On ch%d/%d", q[0]+1, q[1]) }
	off := func(q [2]int) string { return fmt.Sprintf("Off ch%d/%d", q[0]+1, q[1]) }
	switch c.Ev.Val {
	case 1:
		ch, pitch, ok := c.Pre.KeyPair(c.S.D, sym.Name)
		if ok {
			q := [2]int{ch, pitch}
			n := p.cnt[q]
			switch mode {
			case "off", "retrigger":
				exp = []string{on(q)}
			case "no_repeat":
				if n == 0 {
					exp = []string{on(q)}
				}
			case "interrupt":
				if n > 0 {
					exp = []string{off(q), on(q)}
				} else {
					exp = []string{on(q)}
				}
			}
			p.cnt[q] = n + 1
			p.pair[c.Ev.Sym] = q
		}
	case 0:
		q, had := p.pair[c.Ev.Sym]
		if had {
			n := p.cnt[q]
			if mode == "off" || n == 1 {
				exp = []string{off(q)}
			}
			if n <= 1 {
				delete(p.cnt, q)
			} else {
				p.cnt[q] = n - 1
			}
			delete(p.pair, c.Ev.Sym)
		}
	}
	got := semList(c.Msgs)
	if strings.Join(got, ";") != strings.Join(exp, ";") {
		c.viol("collision-rule", fmt.Sprintf("mode %s, %s: emitted %v, the mode prescribes %v", mode, c.Ev.String(c.S.Alpha), got, exp))
	}
}

// ---------------------------------------------------------------- C04 arithmetic / action state machine

type arith struct{}

func (arith) Key(*strings.Builder)    {}
func (a arith) Clone(*worker) Monitor { return a }
func (arith) Step(c *StepCtx) {
	d := c.S.D
	st := c.Dev.State()
	want := fmt.Sprintf("oct=%d sem=%d ch=%d map=%s", c.Post.Oct, c.Post.Sem, c.Post.Ch, d.Mappings[c.Post.Map].Name)
	got := fmt.Sprintf("oct=%d sem=%d ch=%d map=%s", st.Octave, st.Semitone, st.Channel, st.Mapping)
	if want != got {
		c.viol("action-state", fmt.Sprintf("after %s the device state is {%s}, the action rules give {%s}", c.Ev.String(c.S.Alpha), got, want))
		return
	}
	sym := c.Sym
	if sym.IsAxis || sym.Action != "" || c.Ev.Val != 1 {
		return
	}
	ch, pitch, ok := c.Pre.KeyPair(d, sym.Name)
	vel := d.Velocity
	if vel == 0 {
		vel = 64
	}
	var exp []string
	if ok {
		exp = []string{fmt.Sprintf("On ch%d/%d vel%d", ch+1, pitch, vel)}
	}
	got2 := []string{}
	for _, m := range c.Msgs {
		pm := parse(m)
		if pm.kind == kOn {
			got2 = append(got2, fmt.Sprintf("On ch%d/%d vel%d", pm.ch+1, pm.a, pm.b))
		} else {
			got2 = append(got2, fmt.Sprintf("other[% x]", []byte(m)))
		}
	}
	if strings.Join(exp, ";") != strings.Join(got2, ";") {
		c.viol("transposition", fmt.Sprintf("press %s with %+v: emitted %v, expected %v", sym.Name, c.Pre, got2, exp))
	}
}

// ---------------------------------------------------------------- C13 panic (differential against a shadow device that never sees the panic key)

type panicMon struct {
	shadow    *device.Device
	panicHeld uint64
}

func (p *panicMon) Key(b *strings.Builder) {
	fmt.Fprintf(b, "ph%x|%s", p.panicHeld, device.VerifDump(p.shadow))
}
func (p *panicMon) Clone(w *worker) Monitor {
	return &panicMon{shadow: device.VerifClone(p.shadow, w.out, w.sigs), panicHeld: p.panicHeld}
}
func (p *panicMon) Step(c *StepCtx) {
	sym := c.Sym
	if sym.IsAxis {
		if a := c.S.axisDesc[c.Ev.Sym]; a != nil && a.Type == "action" && a.Action == "panic" && a.ActNeg == "panic" {
			// an axis bound to panic in both directions: deflection to at least half travel triggers it, the shadow never sees the axis
			v := KeyEmuValue(a, c.Ev.Val)
			half := rat(1, 2)
			learnGate := c.Pre.Learning && new(bigRat).Abs(v).Cmp(half) <= 0
			if new(bigRat).Abs(v).Cmp(half) >= 0 && !learnGate {
				p.checkBurst(c)
			} else if len(c.Msgs) > 0 {
				c.viol("panic-axis-emits-at-rest", fmt.Sprintf("%s emitted %d messages", c.Ev.String(c.S.Alpha), len(c.Msgs)))
			}
			return
		}
	}
	if sym.Action == "panic" {
		if c.Ev.Val != 1 {
			return
		}
		p.checkBurst(c)
		return
	}
	// every other event also goes to the shadow
	device.VerifStep(p.shadow, c.In)
	sm, _ := c.w.drain()
	a, b := strings.Join(msgStrings(c.Msgs), ";"), strings.Join(msgStrings(sm), ";")
	wasHeld := p.panicHeld&(1<<uint(c.Ev.Sym)) != 0
	if c.Ev.Val == 0 && !sym.IsAxis {
		p.panicHeld &^= 1 << uint(c.Ev.Sym)
	}
	if a == b {
		return
	}
	if c.Ev.Val == 0 && wasHeld && !sym.IsAxis {
		okRel := len(c.Msgs) <= 1
		for _, m := range c.Msgs {
			if parse(m).kind != kOff {
				okRel = false
			}
		}
		if okRel {
			return
		}
	}
	c.viol("panic-changes-later-behaviour", fmt.Sprintf("%s emitted %v; the same history without the panic key emits %v", c.Ev.String(c.S.Alpha), msgStrings(c.Msgs), msgStrings(sm)))
}

// checkBurst: the step must be a complete panic burst on the current channel and start no sound
func (p *panicMon) checkBurst(c *StepCtx) {
	{
		{
			ch := c.Pre.Ch
			seen := map[int]bool{}
			cc := false
			for _, m := range c.Msgs {
				pm := parse(m)
				switch {
				case pm.kind == kOn:
					c.viol("panic-starts-sound", fmt.Sprintf("panic emitted NoteOn ch%d/%d", pm.ch+1, pm.a))
					return
				case pm.kind == kOff && pm.ch == ch:
					seen[pm.a] = true
				case pm.kind == kCC && pm.ch == ch && pm.a == 123:
					cc = true
				}
			}
			if !cc {
				c.viol("panic-no-all-notes-off", fmt.Sprintf("panic did not send All Notes Off (CC 123) on the current channel %d", ch+1))
				return
			}
			if len(seen) != 128 {
				c.viol("panic-missing-noteoffs", fmt.Sprintf("panic sent NoteOff for %d of the 128 notes on channel %d", len(seen), ch+1))
				return
			}
			for i := range c.S.Alpha {
				if c.PreDrv.Held&(1<<uint(i)) != 0 && c.S.isNoteKey(&c.S.Alpha[i]) {
					p.panicHeld |= 1 << uint(i)
				}
			}
		}
	}
}

// ---------------------------------------------------------------- C14 exit sequence

type exitMon struct{}

// dump fields: "name=value;" ...
func dumpFields(d string) map[string]string {
	m := map[string]string{}
	for _, f := range strings.Split(d, ";") {
		if i := strings.Index(f, "="); i > 0 {
			m[f[:i]] = f[i+1:]
		}
	}
	return m
}

func diffFields(a, b string) map[string]bool {
	fa, fb := dumpFields(a), dumpFields(b)
	r := map[string]bool{}
	for k, v := range fa {
		if fb[k] != v {
			r[k] = true
		}
	}
	for k := range fb {
		if _, ok := fa[k]; !ok {
			r[k] = true
		}
	}
	return r
}

func dropFields(d string, drop map[string]bool) string {
	var out []string
	for _, f := range strings.Split(d, ";") {
		if i := strings.Index(f, "="); i > 0 && drop[f[:i]] {
			continue
		}
		out = append(out, f)
	}
	return strings.Join(out, ";")
}

func (exitMon) Key(*strings.Builder)    {}
func (e exitMon) Clone(*worker) Monitor { return e }
func (exitMon) Step(c *StepCtx) {
	completes := false
	if !c.Sym.IsAxis && c.Ev.Val == 1 {
		completes = len(c.S.D.Exit) > 0
		for _, k := range c.S.D.Exit {
			held := false
			for i := range c.S.Alpha { // by key code: the sequence names keys, whichever sub-handler of the device delivers them
				if !c.S.Alpha[i].IsAxis && c.S.Alpha[i].Code == keyCode(k) && c.PostDrv.Held&(1<<uint(i)) != 0 {
					held = true
				}
			}
			if !held {
				completes = false
			}
		}
	}
	switch {
	case completes && c.Sigs != 1:
		c.viol("exit-not-signalled", fmt.Sprintf("%s completes the exit sequence %v but %d signals were raised (want exactly 1)", c.Ev.String(c.S.Alpha), c.S.D.Exit, c.Sigs))
	case !completes && c.Sigs != 0:
		c.viol("exit-signalled-early", fmt.Sprintf("%s raised %d termination signal(s) although the exit sequence %v is not fully held", c.Ev.String(c.S.Alpha), c.Sigs, c.S.D.Exit))
	case completes:
		if len(c.Msgs) > 0 {
			c.viol("exit-press-not-swallowed", fmt.Sprintf("the press completing the exit sequence emitted %v", semList(c.Msgs)))
			return
		}
		// "no note and no action of its own": the press may change only what the press of a key WITHOUT any role
		// changes (the bookkeeping of held keys) - found differentially, so that no field name is assumed
		probe := device.VerifClone(c.Dev, c.w.out, c.w.sigs)
		p0 := device.VerifDump(probe)
		device.VerifStep(probe, &input.InputEvent{Source: handler, Event: evdev.InputEvent{Type: evdev.EV_KEY, Code: evdev.KEY_KP9, Value: 1}})
		c.w.drain()
		allowed := diffFields(p0, device.VerifDump(probe))
		a, b := dropFields(c.DumpPre, allowed), dropFields(c.DumpPost, allowed)
		if a != b {
			c.viol("exit-press-not-swallowed", fmt.Sprintf("the press completing the exit sequence changed device state:\n before %s\n after  %s", a, b))
		}
	}
}
