//go:build verif

// C10: accepted configurations say what the file says; invalid values are rejected.
// A structured description is expanded completely per section and pairwise across
// sections; each description is rendered to TOML *and* to the expected config.Config by
// code that never looks at the parser; then every single-field invalidation of every
// base must be rejected.
package main

import (
	"flag"
	"fmt"
	"regexp"
	"sort"
	"strings"

	"github.com/gethiox/HIDI/internal/pkg/logger"
	"github.com/gethiox/HIDI/internal/pkg/midi/device/config"
	"github.com/gethiox/HIDI/internal/verif/vutil"
	"github.com/holoplot/go-evdev"
)

type KeyEnt struct {
	Key    string // as spelled in the file (name or xHEX)
	Code   int
	Note   string // as spelled (number or name)
	NoteV  int
	Offset *int
	OffStr string // the offset as spelled, when the spelling matters (leading zeros)
}

type AxEnt struct {
	Axis              string
	Code              int
	Type              string
	CC, CCNeg         *int
	Note, NoteNeg     *int
	Off, OffNeg       *int
	Action, ActionNeg *string
	Flip, DZC         *bool
	extra             string // raw text appended inside the inline table (invalidations)
}

type KeySub struct {
	Name string
	Keys []KeyEnt
}

type AxSub struct {
	Name      string
	DefaultDZ *float64
	Axes      []AxEnt
	Deadzones map[string]float64 // axis name -> value
}

type Mapping struct {
	Name  string
	Keys  []KeySub
	Axes  []AxSub
	extra string
}

type Desc struct {
	Mode                          string
	Exit                          []string
	Bus, Vendor, Product, Version int
	Uniq                          *string
	Octave, Semitone, Channel     int
	Velocity                      int
	DefMap                        string
	Actions                       [][2]string // key spelling, action
	Colors                        [7]int
	Mappings                      []Mapping
	topExtra, defaultsExtra       string
}

func ip(v int) *int         { return &v }
func sp(v string) *string   { return &v }
func bp(v bool) *bool       { return &v }
func fp(v float64) *float64 { return &v }
func ff(v float64) string {
	s := fmt.Sprintf("%v", v)
	if !strings.ContainsAny(s, ".e") {
		s += ".0"
	}
	return s
}

func (d *Desc) TOML() string {
	var b strings.Builder
	fmt.Fprintf(&b, "collision_mode = %q\nexit_sequence = [", d.Mode)
	for i, k := range d.Exit {
		if i > 0 {
			b.WriteString(", ")
		}
		fmt.Fprintf(&b, "%q", k)
	}
	b.WriteString("]\n" + d.topExtra)
	fmt.Fprintf(&b, "[identifier]\nbus = 0x%x\nvendor = %d\nproduct = 0x%04x\nversion = %d\n", d.Bus, d.Vendor, d.Product, d.Version)
	if d.Uniq != nil {
		fmt.Fprintf(&b, "uniq = %q\n", *d.Uniq)
	}
	fmt.Fprintf(&b, "[defaults]\noctave = %d\nsemitone = %d\nchannel = %d\nmapping = %q\nvelocity = %d\n%s", d.Octave, d.Semitone, d.Channel, d.DefMap, d.Velocity, d.defaultsExtra)
	b.WriteString("[action_mapping]\n")
	for _, a := range d.Actions {
		fmt.Fprintf(&b, "%s = %q\n", a[0], a[1])
	}
	names := []string{"white", "black", "c", "unavailable", "other", "active", "active_external"}
	b.WriteString("[open_rgb]\n")
	for i, n := range names {
		fmt.Fprintf(&b, "%s = 0x%06x\n", n, d.Colors[i])
	}
	for _, m := range d.Mappings {
		fmt.Fprintf(&b, "[[mapping]]\nname = %q\n%s", m.Name, m.extra)
		for _, ks := range m.Keys {
			fmt.Fprintf(&b, "[[mapping.keys]]\nsubhandler = %q\n[mapping.keys.map]\n", ks.Name)
			for _, k := range ks.Keys {
				if k.OffStr != "" {
					fmt.Fprintf(&b, "%s = \"%s,%s\"\n", k.Key, k.Note, k.OffStr)
				} else if k.Offset != nil {
					fmt.Fprintf(&b, "%s = \"%s,%d\"\n", k.Key, k.Note, *k.Offset)
				} else {
					fmt.Fprintf(&b, "%s = %q\n", k.Key, k.Note)
				}
			}
		}
		for _, as := range m.Axes {
			fmt.Fprintf(&b, "[[mapping.analog]]\nsubhandler = %q\n", as.Name)
			if as.DefaultDZ != nil {
				fmt.Fprintf(&b, "default_deadzone = %s\n", ff(*as.DefaultDZ))
			}
			b.WriteString("[mapping.analog.map]\n")
			for _, a := range as.Axes {
				f := []string{fmt.Sprintf("type = %q", a.Type)}
				add := func(name string, p *int) {
					if p != nil {
						f = append(f, fmt.Sprintf("%s = %d", name, *p))
					}
				}
				add("cc", a.CC)
				add("cc_negative", a.CCNeg)
				add("note", a.Note)
				add("note_negative", a.NoteNeg)
				add("channel_offset", a.Off)
				add("channel_offset_negative", a.OffNeg)
				if a.Action != nil {
					f = append(f, fmt.Sprintf("action = %q", *a.Action))
				}
				if a.ActionNeg != nil {
					f = append(f, fmt.Sprintf("action_negative = %q", *a.ActionNeg))
				}
				if a.Flip != nil {
					f = append(f, fmt.Sprintf("flip_axis = %v", *a.Flip))
				}
				if a.DZC != nil {
					f = append(f, fmt.Sprintf("deadzone_at_center = %v", *a.DZC))
				}
				if a.extra != "" {
					f = append(f, a.extra)
				}
				fmt.Fprintf(&b, "%s = { %s }\n", a.Axis, strings.Join(f, ", "))
			}
			if len(as.Deadzones) > 0 {
				b.WriteString("[mapping.analog.deadzones]\n")
				ks := []string{}
				for k := range as.Deadzones {
					ks = append(ks, k)
				}
				sort.Strings(ks)
				for _, k := range ks {
					fmt.Fprintf(&b, "%s = %s\n", k, ff(as.Deadzones[k]))
				}
			}
		}
	}
	return b.String()
}

// ---- canonical renderings (expected from the description, actual from config.Config)

func dv(p *int) int {
	if p == nil {
		return 0
	}
	return *p
}
func dvb(p *bool) bool { return p != nil && *p }

func code(name string) int {
	if strings.HasPrefix(name, "x") {
		var v int
		fmt.Sscanf(name[1:], "%x", &v)
		return v
	}
	if c, ok := evdev.KEYFromString[name]; ok {
		return int(c)
	}
	if c, ok := evdev.ABSFromString[name]; ok {
		return int(c)
	}
	panic("VERIF-INFRA: unknown code name " + name)
}

func (d *Desc) Expected() []string {
	var out []string
	add := func(f string, a ...interface{}) { out = append(out, fmt.Sprintf(f, a...)) }
	add("mode=%s", d.Mode)
	ex := []string{}
	for _, k := range d.Exit {
		ex = append(ex, fmt.Sprint(code(k)))
	}
	add("exit=%s", strings.Join(ex, ","))
	uq := ""
	if d.Uniq != nil {
		uq = *d.Uniq
	}
	add("id=%d/%d/%d/%d uniq=%q", d.Bus, d.Vendor, d.Product, d.Version, uq)
	vel := d.Velocity
	if vel == 0 {
		vel = 64
	}
	mi := -1
	for i, m := range d.Mappings {
		if m.Name == d.DefMap {
			mi = i
		}
	}
	add("defaults oct=%d sem=%d ch=%d vel=%d map=%d", d.Octave, d.Semitone, d.Channel, vel, mi)
	for _, a := range d.Actions {
		add("action %d=%s", code(a[0]), a[1])
	}
	for i, c := range d.Colors {
		add("color%d=%d/%d/%d", i, (c>>16)&255, (c>>8)&255, c&255)
	}
	add("mappings=%d", len(d.Mappings))
	for i, m := range d.Mappings {
		add("m%d name=%q", i, m.Name)
		for _, ks := range m.Keys {
			for _, k := range ks.Keys {
				add("m%d key %q/%d note=%d off=%d", i, ks.Name, k.Code, k.NoteV, dv(k.Offset))
			}
		}
		for _, as := range m.Axes {
			dz := 0.0
			if as.DefaultDZ != nil {
				dz = *as.DefaultDZ
			}
			if dz != 0 {
				add("m%d defaultdz %q=%v", i, as.Name, dz)
			}
			for k, v := range as.Deadzones {
				add("m%d dz %q/%d=%v", i, as.Name, code(k), v)
			}
			for _, a := range as.Axes {
				switch a.Type {
				case "cc":
					add("m%d axis %q/%d cc=%d ccneg=%d bidir=%v off=%d offneg=%d flip=%v dzc=%v", i, as.Name, a.Code, dv(a.CC), dv(a.CCNeg), a.CCNeg != nil, dv(a.Off), dv(a.OffNeg), dvb(a.Flip), dvb(a.DZC))
				case "pitch_bend":
					add("m%d axis %q/%d bend off=%d flip=%v dzc=%v", i, as.Name, a.Code, dv(a.Off), dvb(a.Flip), dvb(a.DZC))
				case "key":
					add("m%d axis %q/%d note=%d noteneg=%d bidir=%v off=%d offneg=%d flip=%v dzc=%v", i, as.Name, a.Code, dv(a.Note), dv(a.NoteNeg), a.NoteNeg != nil, dv(a.Off), dv(a.OffNeg), dvb(a.Flip), dvb(a.DZC))
				case "action":
					an := ""
					if a.ActionNeg != nil {
						an = *a.ActionNeg
					}
					add("m%d axis %q/%d action=%s actionneg=%s bidir=%v flip=%v dzc=%v", i, as.Name, a.Code, *a.Action, an, a.ActionNeg != nil, dvb(a.Flip), dvb(a.DZC))
				}
			}
		}
	}
	sort.Strings(out)
	return out
}

func Actual(c config.Config) []string {
	var out []string
	add := func(f string, a ...interface{}) { out = append(out, fmt.Sprintf(f, a...)) }
	add("mode=%s", c.CollisionMode)
	ex := []string{}
	for _, k := range c.ExitSequence {
		ex = append(ex, fmt.Sprint(int(k)))
	}
	add("exit=%s", strings.Join(ex, ","))
	add("id=%d/%d/%d/%d uniq=%q", c.ID.Bus, c.ID.Vendor, c.ID.Product, c.ID.Version, c.Uniq)
	add("defaults oct=%d sem=%d ch=%d vel=%d map=%d", c.Defaults.Octave, c.Defaults.Semitone, c.Defaults.Channel, c.Defaults.Velocity, c.Defaults.Mapping)
	for k, a := range c.ActionMapping {
		add("action %d=%s", int(k), a)
	}
	cs := c.OpenRGB.Colors
	for i, col := range []struct{ R, G, B byte }{{cs.White.Red, cs.White.Green, cs.White.Blue}, {cs.Black.Red, cs.Black.Green, cs.Black.Blue}, {cs.C.Red, cs.C.Green, cs.C.Blue},
		{cs.Unavailable.Red, cs.Unavailable.Green, cs.Unavailable.Blue}, {cs.Other.Red, cs.Other.Green, cs.Other.Blue}, {cs.Active.Red, cs.Active.Green, cs.Active.Blue},
		{cs.ActiveExternal.Red, cs.ActiveExternal.Green, cs.ActiveExternal.Blue}} {
		add("color%d=%d/%d/%d", i, col.R, col.G, col.B)
	}
	add("mappings=%d", len(c.KeyMappings))
	for i, m := range c.KeyMappings {
		add("m%d name=%q", i, m.Name)
		for sub, ks := range m.Midi {
			for k, v := range ks {
				add("m%d key %q/%d note=%d off=%d", i, sub, int(k), v.Note, v.ChannelOffset)
			}
		}
		for sub, v := range m.DefaultDeadzone {
			if v != 0 {
				add("m%d defaultdz %q=%v", i, sub, v)
			}
		}
		for sub, dz := range m.Deadzones {
			for k, v := range dz {
				add("m%d dz %q/%d=%v", i, sub, int(k), v)
			}
		}
		for sub, as := range m.Analog {
			for k, a := range as {
				switch string(a.MappingType) {
				case "cc":
					add("m%d axis %q/%d cc=%d ccneg=%d bidir=%v off=%d offneg=%d flip=%v dzc=%v", i, sub, int(k), a.CC, a.CCNeg, a.Bidirectional, a.ChannelOffset, a.ChannelOffsetNeg, a.FlipAxis, a.DeadzoneAtCenter)
				case "pitch_bend":
					add("m%d axis %q/%d bend off=%d flip=%v dzc=%v", i, sub, int(k), a.ChannelOffset, a.FlipAxis, a.DeadzoneAtCenter)
				case "key":
					add("m%d axis %q/%d note=%d noteneg=%d bidir=%v off=%d offneg=%d flip=%v dzc=%v", i, sub, int(k), a.Note, a.NoteNeg, a.Bidirectional, a.ChannelOffset, a.ChannelOffsetNeg, a.FlipAxis, a.DeadzoneAtCenter)
				case "action":
					add("m%d axis %q/%d action=%s actionneg=%s bidir=%v flip=%v dzc=%v", i, sub, int(k), a.Action, a.ActionNeg, a.Bidirectional, a.FlipAxis, a.DeadzoneAtCenter)
				default:
					add("m%d axis %q/%d UNKNOWN TYPE %q", i, sub, int(k), a.MappingType)
				}
			}
		}
	}
	sort.Strings(out)
	return out
}

// rangeProblems: every value of an ACCEPTED configuration must be within its MIDI range
func rangeProblems(c config.Config) []string {
	var p []string
	if c.Defaults.Channel < 1 || c.Defaults.Channel > 16 {
		p = append(p, fmt.Sprintf("default channel %d", c.Defaults.Channel))
	}
	if c.Defaults.Velocity < 1 || c.Defaults.Velocity > 127 {
		p = append(p, fmt.Sprintf("velocity %d", c.Defaults.Velocity))
	}
	if c.Defaults.Mapping < 0 || c.Defaults.Mapping >= len(c.KeyMappings) {
		p = append(p, fmt.Sprintf("default mapping index %d of %d", c.Defaults.Mapping, len(c.KeyMappings)))
	}
	for _, m := range c.KeyMappings {
		for _, ks := range m.Midi {
			for _, v := range ks {
				if v.Note > 127 || v.ChannelOffset > 15 {
					p = append(p, fmt.Sprintf("key note %d offset %d", v.Note, v.ChannelOffset))
				}
			}
		}
		for _, as := range m.Analog {
			for _, a := range as {
				if a.CC > 119 || a.CCNeg > 119 || a.Note > 127 || a.NoteNeg > 127 || a.ChannelOffset > 15 || a.ChannelOffsetNeg > 15 {
					p = append(p, fmt.Sprintf("axis %+v", a))
				}
			}
		}
	}
	return p
}

func diff(a, b []string) (onlyA, onlyB []string) {
	ma, mb := map[string]int{}, map[string]int{}
	for _, x := range a {
		ma[x]++
	}
	for _, x := range b {
		mb[x]++
	}
	for x, n := range ma {
		if mb[x] < n {
			onlyA = append(onlyA, x)
		}
	}
	for x, n := range mb {
		if ma[x] < n {
			onlyB = append(onlyB, x)
		}
	}
	sort.Strings(onlyA)
	sort.Strings(onlyB)
	return
}

var res *vutil.Result
var counter, shard, nshards int

func fieldClass(lines []string) string {
	// first differing expected line, digits removed: identifies WHICH field is misrepresented
	if len(lines) == 0 {
		return "extra-content"
	}
	l := lines[0]
	f := strings.Fields(l)
	kind := f[0]
	if len(f) > 1 && (f[1] == "axis" || f[1] == "key" || f[1] == "dz" || f[1] == "defaultdz" || f[1] == "name") {
		kind = f[1]
		if f[1] == "axis" && len(f) > 3 {
			kind += ":" + strings.SplitN(f[3], "=", 2)[0]
		}
	}
	return strings.TrimRight(kind, "0123456789=")
}

func checkValid(d *Desc, tag string) {
	counter++
	if counter%nshards != shard {
		return
	}
	res.Add("evaluations", 1)
	text := d.TOML()
	cfg, err := safeParse(text)
	if err != nil {
		res.Violate("valid-config-rejected", tag, fmt.Sprintf("a configuration using only documented, in-range values was rejected (%s): %v", tag, err), map[string]interface{}{"variant": tag, "toml": text, "error": err.Error()})
		return
	}
	res.Add("accepted", 1)
	res.Distinct(tag)
	exp, act := d.Expected(), Actual(cfg)
	missing, extra := diff(exp, act)
	if len(missing) > 0 || len(extra) > 0 {
		res.Violate("config-differs-from-file", fieldClass(missing)+"|"+firstDiffField(missing, extra), fmt.Sprintf("%s: the accepted configuration does not say what the file says: file states %v, configuration has %v", tag, missing, extra),
			map[string]interface{}{"variant": tag, "toml": text, "stated_by_file_but_missing": missing, "in_config_but_not_in_file": extra})
	}
	if rp := rangeProblems(cfg); len(rp) > 0 {
		res.Violate("accepted-value-out-of-range", rp[0], fmt.Sprintf("%s: accepted configuration holds out-of-range values %v", tag, rp), map[string]interface{}{"variant": tag, "toml": text})
	}
	if len(res.Samples) < 3 && counter%97 == 1 {
		res.Sample(map[string]interface{}{"variant": tag, "toml_lines": len(strings.Split(text, "\n")), "expected_facts": len(exp)})
	}
}

// firstDiffField: name of the first field whose value differs between the first missing/extra pair
func firstDiffField(missing, extra []string) string {
	if len(missing) == 0 || len(extra) == 0 {
		return ""
	}
	a, b := strings.Fields(missing[0]), strings.Fields(extra[0])
	for i := range a {
		if i < len(b) && a[i] != b[i] {
			return strings.SplitN(a[i], "=", 2)[0]
		}
	}
	return ""
}

func checkInvalid(d *Desc, tag string) {
	counter++
	if counter%nshards != shard {
		return
	}
	res.Add("evaluations", 1)
	res.Add("invalidations", 1)
	text := d.TOML()
	cfg, err := safeParse(text)
	if err != nil && strings.HasPrefix(err.Error(), "PANIC:") {
		res.Violate("invalid-config-panics", strings.SplitN(tag, "@", 2)[0], fmt.Sprintf("a configuration with %s made ParseData panic instead of returning an error: %v", tag, err), map[string]interface{}{"invalidation": tag, "toml": text})
		return
	}
	if err == nil {
		_ = cfg
		res.Violate("invalid-config-accepted", strings.SplitN(tag, "@", 2)[0], fmt.Sprintf("a configuration with %s was accepted", tag), map[string]interface{}{"invalidation": tag, "toml": text})
		return
	}
	res.Distinct("rejected:" + strings.SplitN(tag, "@", 2)[0])
}

var scalarLine = regexp.MustCompile(`^(\s*[A-Za-z_0-9]+\s*=\s*)(-?[0-9]+|0x[0-9a-fA-F]+|"[^"]*")\s*$`)

// checkIllTyped: every scalar of the rendered file is replaced, one at a time, by a value of another TOML type (a date or
// time where a number or string is expected, a number where a string is expected, ...): the file no longer states a value
// of the field's type and must be rejected - never accepted with the field silently left at zero.
func checkIllTyped(d *Desc, tag string) {
	lines := strings.Split(d.TOML(), "\n")
	for i, l := range lines {
		m := scalarLine.FindStringSubmatch(l)
		if m == nil {
			continue
		}
		aliens := []string{"1979-05-27", "07:32:00", "1979-05-27T07:32:00Z", "true", "[1]", "{ a = 1 }"}
		if strings.HasPrefix(m[2], `"`) {
			aliens = append(aliens, "7", "1.5")
		} else {
			aliens = append(aliens, `"7"`, "1.5")
		}
		for _, a := range aliens {
			counter++
			if counter%nshards != shard {
				continue
			}
			mut := append(append(append([]string{}, lines[:i]...), m[1]+a), lines[i+1:]...)
			text := strings.Join(mut, "\n")
			res.Add("evaluations", 1)
			res.Add("invalidations", 1)
			what := fmt.Sprintf("line %q replaced by %q", strings.TrimSpace(l), strings.TrimSpace(m[1]+a))
			_, err := safeParse(text)
			switch {
			case err != nil && strings.HasPrefix(err.Error(), "PANIC:"):
				res.Violate("invalid-config-panics", "ill-typed value", fmt.Sprintf("%s (%s) made ParseData panic: %v", what, tag, err), map[string]interface{}{"invalidation": what, "toml": text})
				return
			case err == nil:
				res.Violate("invalid-config-accepted", "ill-typed value", fmt.Sprintf("a configuration with %s (%s) was accepted", what, tag), map[string]interface{}{"invalidation": what, "toml": text})
				return
			}
			res.Distinct("rejected:ill-typed")
		}
	}
}

func safeParse(text string) (cfg config.Config, err error) {
	defer func() {
		if r := recover(); r != nil {
			err = fmt.Errorf("PANIC: %v", r)
		}
	}()
	return config.ParseData([]byte(text))
}

func main() {
	out := flag.String("out", "", "")
	flag.IntVar(&shard, "shard", 0, "")
	flag.IntVar(&nshards, "nshards", 1, "")
	tier := flag.String("tier", "quick", "")
	flag.Parse()
	go func() {
		for range logger.Messages {
		}
	}()
	res = vutil.NewResult()
	generate(*tier)
	res.Write(*out)
}
