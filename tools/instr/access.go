package main

import (
	"go/ast"
	"go/token"
	"go/types"
)

// T9: data-access annotations for the happens-before race detector. For every statement, the
// accesses to mutable fields of a *Device that occur in the statement itself (for compound
// statements: in its header expressions) are announced by vsched.R / vsched.W calls inserted in
// front of it (and at the top of loop bodies for loop headers). Annotation calls are not
// scheduling points; a thread runs atomically between synchronisation operations, so announcing
// an access at the start of its statement is equivalent to announcing it at the access.

type access struct {
	recv  ast.Expr
	field string
	write bool
}

func (r *rewriter) deviceField(e ast.Expr) (ast.Expr, string, bool) {
	se, ok := e.(*ast.SelectorExpr)
	if !ok {
		return nil, "", false
	}
	sel := r.info.Selections[se]
	if sel == nil || sel.Kind() != types.FieldVal {
		return nil, "", false
	}
	t := r.info.TypeOf(se.X)
	if t == nil {
		return nil, "", false
	}
	if p, ok := t.(*types.Pointer); ok {
		t = p.Elem()
	}
	n, ok := t.(*types.Named)
	if !ok || n.Obj().Name() != "Device" || n.Obj().Pkg() == nil || n.Obj().Pkg().Name() != "device" {
		return nil, "", false
	}
	switch sel.Obj().Type().Underlying().(type) {
	case *types.Map, *types.Slice, *types.Basic, *types.Array:
	default:
		return nil, "", false // channels, mutex pointers, function tables, embedded configuration structs
	}
	if _, isIdent := se.X.(*ast.Ident); !isIdent {
		return nil, "", false
	}
	return se.X, se.Sel.Name, true
}

// rootSelector: d.f in d.f, d.f[k], d.f[k][j]
func rootSelector(e ast.Expr) ast.Expr {
	for {
		switch v := e.(type) {
		case *ast.IndexExpr:
			e = v.X
		case *ast.ParenExpr:
			e = v.X
		case *ast.StarExpr:
			e = v.X
		default:
			return e
		}
	}
}

func (r *rewriter) collect(n ast.Node, acc *[]access, writes map[ast.Expr]bool) {
	if n == nil {
		return
	}
	ast.Inspect(n, func(x ast.Node) bool {
		switch v := x.(type) {
		case *ast.FuncLit:
			return false // its body is a separate block
		case *ast.SelectorExpr:
			if recv, f, ok := r.deviceField(v); ok {
				*acc = append(*acc, access{recv, f, writes[v]})
			}
		case *ast.Ident:
			if r.isPkgVar(v) {
				*acc = append(*acc, access{&ast.UnaryExpr{Op: token.AND, X: ast.NewIdent(v.Name)}, "package variable " + v.Name, writes[v]})
			}
		}
		return true
	})
}

// isPkgVar: a package-level variable of the package being instrumented (shared by all devices)
func (r *rewriter) isPkgVar(id *ast.Ident) bool {
	v, ok := r.info.Uses[id].(*types.Var)
	if !ok || v.IsField() || v.Pkg() == nil || v.Pkg() != r.pkg.Types {
		return false
	}
	if v.Parent() != r.pkg.Types.Scope() {
		return false
	}
	switch v.Type().Underlying().(type) {
	case *types.Signature, *types.Chan:
		return false
	}
	if p, ok := v.Type().(*types.Pointer); ok { // e.g. the *zap.Logger: the pointer itself is read-only
		_ = p
	}
	return true
}

// rootIdent: x in x, x.f.g, x[i], *x
func rootIdent(e ast.Expr) *ast.Ident {
	for {
		switch v := e.(type) {
		case *ast.Ident:
			return v
		case *ast.SelectorExpr:
			e = v.X
		case *ast.IndexExpr:
			e = v.X
		case *ast.ParenExpr:
			e = v.X
		case *ast.StarExpr:
			e = v.X
		default:
			return nil
		}
	}
}

func (r *rewriter) writesOf(s ast.Stmt) map[ast.Expr]bool {
	w := map[ast.Expr]bool{}
	mark := func(e ast.Expr) {
		if se, ok := rootSelector(e).(*ast.SelectorExpr); ok {
			w[se] = true
		}
		if id := rootIdent(e); id != nil && r.isPkgVar(id) {
			w[id] = true
		}
	}
	switch v := s.(type) {
	case *ast.AssignStmt:
		for _, l := range v.Lhs {
			mark(l)
		}
	case *ast.IncDecStmt:
		mark(v.X)
	case *ast.RangeStmt:
		if v.Tok == token.ASSIGN {
			if v.Key != nil {
				mark(v.Key)
			}
			if v.Value != nil {
				mark(v.Value)
			}
		}
	}
	ast.Inspect(s, func(x ast.Node) bool {
		if _, ok := x.(*ast.FuncLit); ok {
			return false
		}
		if c, ok := x.(*ast.CallExpr); ok && r.isBuiltin(c.Fun, "delete") && len(c.Args) > 0 {
			mark(c.Args[0])
		}
		return true
	})
	return w
}

func annotation(a access) ast.Stmt {
	fn := "R"
	if a.write {
		fn = "W"
	}
	return &ast.ExprStmt{X: call(sel(vs, fn), a.recv, &ast.BasicLit{Kind: token.STRING, Value: `"` + a.field + `"`})}
}

func dedup(as []access) []access {
	seen := map[string]int{}
	var out []access
	for _, a := range as {
		k := a.field
		if id, ok := a.recv.(*ast.Ident); ok {
			k = id.Name + "." + a.field
		}
		if i, ok := seen[k]; ok {
			if a.write {
				out[i].write = true
			}
			continue
		}
		seen[k] = len(out)
		out = append(out, a)
	}
	return out
}

func (r *rewriter) funcLits(n ast.Node) {
	if n == nil {
		return
	}
	ast.Inspect(n, func(x ast.Node) bool {
		if fl, ok := x.(*ast.FuncLit); ok {
			fl.Body.List = r.annotateList(fl.Body.List)
			return false
		}
		return true
	})
}

func (r *rewriter) annotateList(list []ast.Stmt) []ast.Stmt {
	var out []ast.Stmt
	for _, s := range list {
		var acc []access
		inner := s
		if l, ok := s.(*ast.LabeledStmt); ok {
			inner = l.Stmt
		}
		w := r.writesOf(inner)
		switch v := inner.(type) {
		case *ast.BlockStmt:
			v.List = r.annotateList(v.List)
		case *ast.IfStmt:
			r.collect(v.Init, &acc, w)
			r.collect(v.Cond, &acc, w)
			r.funcLits(v.Init)
			r.funcLits(v.Cond)
			v.Body.List = r.annotateList(v.Body.List)
			if v.Else != nil {
				wrapped := r.annotateList([]ast.Stmt{v.Else})
				if len(wrapped) == 1 {
					v.Else = wrapped[0]
				} else {
					v.Else = &ast.BlockStmt{List: wrapped}
				}
			}
		case *ast.ForStmt:
			var hdr []access
			r.collect(v.Init, &acc, w)
			r.collect(v.Cond, &hdr, w)
			r.collect(v.Post, &hdr, w)
			acc = append(acc, hdr...)
			v.Body.List = r.annotateList(v.Body.List)
			var top []ast.Stmt
			for _, a := range dedup(hdr) {
				top = append(top, annotation(a))
			}
			v.Body.List = append(top, v.Body.List...)
		case *ast.RangeStmt:
			var hdr []access
			r.collect(v.X, &hdr, w)
			acc = append(acc, hdr...)
			v.Body.List = r.annotateList(v.Body.List)
			var top []ast.Stmt
			for _, a := range dedup(hdr) { // every iteration reads the collection
				top = append(top, annotation(a))
			}
			v.Body.List = append(top, v.Body.List...)
		case *ast.SwitchStmt:
			r.collect(v.Init, &acc, w)
			r.collect(v.Tag, &acc, w)
			for _, c := range v.Body.List {
				cc := c.(*ast.CaseClause)
				for _, e := range cc.List {
					r.collect(e, &acc, w)
				}
				cc.Body = r.annotateList(cc.Body)
			}
		case *ast.TypeSwitchStmt:
			for _, c := range v.Body.List {
				cc := c.(*ast.CaseClause)
				cc.Body = r.annotateList(cc.Body)
			}
		case *ast.SelectStmt:
			for _, c := range v.Body.List {
				cc := c.(*ast.CommClause)
				cc.Body = r.annotateList(cc.Body)
			}
		default:
			r.collect(inner, &acc, w)
			r.funcLits(inner)
		}
		for _, a := range dedup(acc) {
			out = append(out, annotation(a))
		}
		out = append(out, s)
	}
	return out
}

// annotateAccesses inserts vsched.R / vsched.W calls for accesses to mutable Device fields (T9).
func (r *rewriter) annotateAccesses(f *ast.File) {
	for _, d := range f.Decls {
		if fd, ok := d.(*ast.FuncDecl); ok && fd.Body != nil {
			fd.Body.List = r.annotateList(fd.Body.List)
		}
	}
}
