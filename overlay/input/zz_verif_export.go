//go:build verif

// Verification-only export file (mapped in by `go build -overlay`, tag verif).
package input

import "github.com/holoplot/go-evdev"

// VerifDeviceInfo builds a DeviceInfo including the unexported event name.
func VerifDeviceInfo(event, name, phys string, id InputID, uniq string, types []evdev.EvType) DeviceInfo {
	return DeviceInfo{ID: id, Name: name, Phys: phys, Uniq: uniq, eventName: event, CapableTypes: types}
}
