//go:build verif

// Package vutil: result files and small helpers shared by the /verif harness
// binaries (virtual package, mapped into the HIDI module with -overlay).
package vutil

import (
	"encoding/json"
	"fmt"
	"os"
	"sort"
	"sync"
)

type Violation struct {
	Class  string      `json:"class"`  // oracle clause / defect class (stable identifier)
	Where  string      `json:"where"`  // specific input / call site / history fingerprint
	What   string      `json:"what"`   // human-readable
	Detail interface{} `json:"detail"` // replayable description
}

type Result struct {
	mu           sync.Mutex
	Counters     map[string]int64 `json:"counters"`
	Samples      []interface{}    `json:"samples"`
	Violations   []Violation      `json:"violations"`
	Exhaustive   bool             `json:"exhaustive"`
	Notes        []string         `json:"notes"`
	DistinctKeys []string         `json:"distinct_keys"`
	Infra        string           `json:"infra,omitempty"`
	perClass     map[string]int
	distinct     map[string]bool
}

func NewResult() *Result {
	return &Result{Counters: map[string]int64{}, perClass: map[string]int{}, distinct: map[string]bool{}, Exhaustive: true}
}

func (r *Result) Add(k string, n int64) {
	r.mu.Lock()
	r.Counters[k] += n
	r.mu.Unlock()
}

func (r *Result) Sample(s interface{}) {
	r.mu.Lock()
	if len(r.Samples) < 6 {
		r.Samples = append(r.Samples, s)
	}
	r.mu.Unlock()
}

func (r *Result) Note(s string) {
	r.mu.Lock()
	r.Notes = append(r.Notes, s)
	r.mu.Unlock()
}

// Distinct records a key for the "distinct non-trivial" count (merged as a set across shards).
func (r *Result) Distinct(k string) {
	r.mu.Lock()
	if len(r.distinct) < 200000 {
		r.distinct[k] = true
	}
	r.mu.Unlock()
}

// Violate records a violation; at most 5 per (class, where) pair and 40 per class are kept
// in full, all are counted in counters["violations:"+class].
func (r *Result) Violate(class, where, what string, detail interface{}) {
	r.mu.Lock()
	defer r.mu.Unlock()
	r.Counters["violations:"+class]++
	k := class + "|" + where
	r.perClass[k]++
	if r.perClass[k] > 3 {
		return
	}
	r.perClass[class]++
	if r.perClass[class] > 60 {
		return
	}
	r.Violations = append(r.Violations, Violation{class, where, what, detail})
}

func (r *Result) NumViolations() int {
	r.mu.Lock()
	defer r.mu.Unlock()
	return len(r.Violations)
}

func (r *Result) Write(path string) {
	r.mu.Lock()
	defer r.mu.Unlock()
	for k := range r.distinct {
		r.DistinctKeys = append(r.DistinctKeys, k)
	}
	sort.Strings(r.DistinctKeys)
	b, err := json.Marshal(r)
	if err != nil {
		fmt.Fprintln(os.Stderr, "marshal:", err)
		os.Exit(2)
	}
	if err := os.WriteFile(path, b, 0o644); err != nil {
		fmt.Fprintln(os.Stderr, "write:", err)
		os.Exit(2)
	}
}

// Fail writes an infrastructure-failure result and exits 2.
func Fail(path string, msg string) {
	r := NewResult()
	r.Infra = msg
	r.Write(path)
	fmt.Fprintln(os.Stderr, "INFRA:", msg)
	os.Exit(2)
}
