//go:build verif

// C17: LED feedback shows the device's actual state. The real ProcessEvents with its real LED
// refresh loop (instrumented, virtual time, fake OpenRGB server) is walked through every
// combination of mapping x channel x octave x semitone x held keys x MIDI-input notes for
// several LED layouts; after every step a frame computed strictly after the step is compared
// with a reference colouring written from the property statement.
package main

import (
	"flag"
	"fmt"
	"os"
	"path/filepath"
	"runtime"
	"sort"
	"strings"

	"github.com/gethiox/HIDI/internal/pkg/input"
	"github.com/gethiox/HIDI/internal/pkg/logger"
	"github.com/gethiox/HIDI/internal/pkg/midi"
	"github.com/gethiox/HIDI/internal/pkg/midi/device"
	"github.com/gethiox/HIDI/internal/pkg/midi/device/config"
	"github.com/gethiox/HIDI/internal/verif/vsched"
	"github.com/gethiox/HIDI/internal/verif/vutil"
	"github.com/holoplot/go-evdev"
	"github.com/realbucksavage/openrgb-go"
)

// colours (distinct on purpose)
const (
	cWhite, cBlack, cC, cUnavail, cOther, cActive, cExternal = 0x005500, 0x000055, 0x555500, 0x440000, 0x123456, 0xfdfdfd, 0x00fefe
)

type keyDef struct {
	key  string
	note int
}

var mappings = []struct {
	name string
	keys []keyDef
}{
	{"Piano", []keyDef{{"KEY_A", 60}, {"KEY_S", 61}, {"KEY_D", 64}, {"KEY_Z", 0}, {"KEY_X", 127}, {"KEY_Q", 60}}},
	// (KEY_Q in Control and KEY_Z in Last play a pitch that a key WITHOUT function in that mapping plays in the mapping before)
	{"Control", []keyDef{{"KEY_A", 62}, {"KEY_S", 1}, {"KEY_X", 120}, {"KEY_Q", 64}}},
	{"Last", []keyDef{{"KEY_D", 48}, {"KEY_Z", 62}, {"KEY_Q", 126}}},
}

var actions = map[string]string{
	"KEY_ESC": "panic", "KEY_F1": "octave_down", "KEY_F2": "octave_up", "KEY_F3": "semitone_down", "KEY_F4": "semitone_up",
	"KEY_F5": "channel_down", "KEY_F6": "channel_up", "KEY_F11": "mapping_down", "KEY_F12": "mapping_up", "KEY_F7": "multinote",
}

func toml() string {
	var b strings.Builder
	b.WriteString("collision_mode = \"retrigger\"\nexit_sequence = []\n[identifier]\nbus = 0\n[defaults]\noctave = 0\nsemitone = 0\nchannel = 1\nmapping = \"Piano\"\nvelocity = 64\n[action_mapping]\n")
	for _, k := range sortedKeys(actions) {
		fmt.Fprintf(&b, "%s = %q\n", k, actions[k])
	}
	fmt.Fprintf(&b, "[open_rgb]\nwhite = %d\nblack = %d\nc = %d\nunavailable = %d\nother = %d\nactive = %d\nactive_external = %d\n", cWhite, cBlack, cC, cUnavail, cOther, cActive, cExternal)
	for _, m := range mappings {
		fmt.Fprintf(&b, "[[mapping]]\nname = %q\n[[mapping.keys]]\nsubhandler = \"\"\n[mapping.keys.map]\n", m.name)
		for _, k := range m.keys {
			fmt.Fprintf(&b, "%s = \"%d\"\n", k.key, k.note)
		}
	}
	return b.String()
}

func sortedKeys(m map[string]string) []string {
	var ks []string
	for k := range m {
		ks = append(ks, k)
	}
	sort.Strings(ks)
	return ks
}

func col(v int) openrgb.Color {
	return openrgb.Color{Red: byte(v >> 16), Green: byte(v >> 8), Blue: byte(v)}
}

// ---- layouts: which LEDs exist, in which order

func ledName(key string) string { return device.KeyToLedName[evdev.KEYFromString[key]] }

func layouts(tier string) map[string][]string {
	note := []string{"KEY_A", "KEY_S", "KEY_D", "KEY_Z", "KEY_X", "KEY_Q"}
	act := sortedKeys(actions)
	names := func(keys ...string) []string {
		var r []string
		for _, k := range keys {
			r = append(r, ledName(k))
		}
		return r
	}
	all := append(append([]string{}, act...), note...)
	rev := append([]string{}, all...)
	for i, j := 0, len(rev)-1; i < j; i, j = i+1, j-1 {
		rev[i], rev[j] = rev[j], rev[i]
	}
	ls := map[string][]string{
		"actions-then-notes":   append(names(all...), "Key: W", "Key: E"),
		"reversed":             names(rev...),
		"only-note-keys":       append([]string{"Key: W"}, names(note...)...),    // no action key is lit; LED 0 is an unmapped key
		"mapped-key-at-led0":   names(append([]string{"KEY_X"}, note[:4]...)...), // no action LEDs, LED 0 = a key that goes out of range
		"unknown-names":        append(append([]string{"Logo", "Key: W"}, names(all...)...), "Underglow 1", "Key: E"),
		"some-actions-missing": names("KEY_Z", "KEY_F2", "KEY_F6", "KEY_A", "KEY_S", "KEY_X", "KEY_ESC"),
		"single-mapping":       names(all...),
	}
	if tier == "thorough" {
		// every rotation of the full layout (each key takes each LED index once) and every layout with exactly one LED missing
		for k := 1; k < len(all); k++ {
			ls[fmt.Sprintf("rotated-%02d", k)] = names(append(append([]string{}, all[k:]...), all[:k]...)...)
		}
		for k := range all {
			ls[fmt.Sprintf("without-%s", all[k])] = names(append(append([]string{}, all[:k]...), all[k+1:]...)...)
		}
	}
	return ls
}

// ---- fake server + frame pick-up

type server struct {
	leds   []openrgb.LED
	frames int
	last   []openrgb.Color
	name   string
}

func (s *server) ControllerCount() (int, error) { return 1, nil }
func (s *server) Controller(i int) (openrgb.Device, error) {
	return openrgb.Device{Type: 5, Name: s.name, Location: "HID: /dev/hidraw0", LEDs: s.leds, Colors: make([]openrgb.Color, len(s.leds))}, nil
}
func (s *server) UpdateLEDs(i int, c []openrgb.Color) error {
	s.frames++
	s.last = c
	return nil
}

var maxPts = 3000000

var hnd = input.Handler{Name: "", DeviceInfo: input.VerifDeviceInfo("event3", "Dummy", "phys0", input.InputID{}, "", nil)}

func keyEv(name string, v int32) *input.InputEvent {
	return &input.InputEvent{Source: hnd, Event: evdev.InputEvent{Type: evdev.EV_KEY, Code: evdev.KEYFromString[name], Value: v}}
}

var syn = &input.InputEvent{Source: hnd, Event: evdev.InputEvent{Type: evdev.EV_SYN}}

// ---- reference state

type ref struct {
	oct, sem, ch, mp int
	held             map[string]int  // key -> sounding pitch (-1: pressed but silent)
	ext              map[[2]int]bool // (channel, pitch) sounding on MIDI input
}

type walker struct {
	res                   *vutil.Result
	layout                string
	srv                   *server
	in                    chan *input.InputEvent
	mi                    chan midi.Event
	r                     ref
	hist                  []string
	octF, semF, mapF, chF map[int]string // value -> rendered colours of the indicator keys (functional dependence)
	bad                   int
	seen                  map[string]bool
}

func (w *walker) frame() []openrgb.Color {
	// two complete refresh iterations after the last barrier: the second one was computed entirely after it
	c0 := w.srv.frames
	for w.srv.frames < c0+2 {
		vsched.SleepL(1e6, "wait-frame")
	}
	return w.srv.last
}

func (w *walker) send(e *input.InputEvent, what string) {
	vsched.Out[*input.InputEvent](w.in).Send(e)
	w.res.Add("transitions", 1)
	vsched.Out[*input.InputEvent](w.in).Send(syn) // barrier: the event has been processed when this completes
	w.hist = append(w.hist, what)
	if len(w.hist) > 12 {
		w.hist = w.hist[len(w.hist)-12:]
	}
}

func (w *walker) midiIn(m midi.Event, what string) {
	vsched.Out[midi.Event](w.mi).Send(m)
	w.res.Add("transitions", 1)
	vsched.Out[midi.Event](w.mi).Send(midi.ControlChangeEvent(0, 7, 1)) // barrier (ignored message type)
	w.hist = append(w.hist, what)
	if len(w.hist) > 12 {
		w.hist = w.hist[len(w.hist)-12:]
	}
}

func (w *walker) tap(key string) {
	w.send(keyEv(key, 1), "+"+key)
	w.send(keyEv(key, 0), "-"+key)
	switch actions[key] {
	case "octave_up":
		w.r.oct++
	case "octave_down":
		w.r.oct--
	case "semitone_up":
		w.r.sem++
	case "semitone_down":
		w.r.sem--
	case "channel_up":
		if w.r.ch < 15 {
			w.r.ch++
		}
	case "channel_down":
		if w.r.ch > 0 {
			w.r.ch--
		}
	case "mapping_up":
		if w.r.mp < len(mappings)-1 {
			w.r.mp++
		}
	case "mapping_down":
		if w.r.mp > 0 {
			w.r.mp--
		}
	case "panic":
		w.r.ext = map[[2]int]bool{}
	}
}

func (w *walker) press(key string) {
	w.send(keyEv(key, 1), "+"+key)
	p := -1
	for _, k := range mappings[w.r.mp].keys {
		if k.key == key {
			x := k.note + 12*w.r.oct + w.r.sem
			if x >= 0 && x <= 127 {
				p = x
			}
		}
	}
	w.r.held[key] = p
}

func (w *walker) release(key string) {
	w.send(keyEv(key, 0), "-"+key)
	delete(w.r.held, key)
}

func (w *walker) violate(class, where, what string) {
	w.bad++
	w.res.Violate(class, where, fmt.Sprintf("layout %q, state {mapping %s, channel %d, octave %d, semitone %d, held %v, midi-in %v}: %s", w.layout, mappings[w.r.mp].name, w.r.ch+1, w.r.oct, w.r.sem, w.r.held, w.r.ext, what),
		map[string]interface{}{"layout": w.layout, "led_names": ledNames(w.srv.leds), "last_steps": append([]string{}, w.hist...), "toml": toml()})
}

func ledNames(l []openrgb.LED) []string {
	var r []string
	for _, x := range l {
		r = append(r, x.Name)
	}
	return r
}

func channelColorIsOneOf(c openrgb.Color, chans []int, frame func(int) openrgb.Color) bool {
	return false
}

// check compares one frame with the reference colouring.
func (w *walker) check(chanColor map[int]openrgb.Color) {
	f := w.frame()
	w.res.Add("evaluations", 1)
	w.res.Add("frames_checked", 1)
	w.res.Add("executions", 1) // one frame of the real loop judged = one trace validated against the implementation
	st := fmt.Sprintf("%s|%d|%d|%d|%d|%v|%v", w.layout, w.r.mp, w.r.ch, w.r.oct, w.r.sem, w.r.held, w.r.ext)
	if !w.seen[st] {
		w.seen[st] = true
		w.res.Add("states", 1)
	}
	if len(f) != len(w.srv.leds) {
		w.violate("frame-size", w.layout, fmt.Sprintf("frame has %d colours for %d LEDs", len(f), len(w.srv.leds)))
		return
	}
	m := mappings[w.r.mp]
	actionKey := map[string]string{}
	for k, a := range actions {
		actionKey[ledName(k)] = a
	}
	// indicator keys: functional dependence on the value
	ind := func(a1, a2 string) string {
		var s []string
		for i, l := range w.srv.leds {
			if actionKey[l.Name] == a1 || actionKey[l.Name] == a2 {
				s = append(s, fmt.Sprintf("%s=%v", actionKey[l.Name], f[i]))
			}
		}
		sort.Strings(s)
		return strings.Join(s, " ")
	}
	for _, x := range []struct {
		m    map[int]string
		v    int
		a, b string
		name string
	}{{w.octF, w.r.oct, "octave_up", "octave_down", "octave"}, {w.semF, w.r.sem, "semitone_up", "semitone_down", "semitone"},
		{w.mapF, w.r.mp, "mapping_up", "mapping_down", "mapping"}, {w.chF, w.r.ch, "channel_up", "channel_down", "channel"}} {
		cur := ind(x.a, x.b)
		if cur == "" {
			continue
		}
		if prev, ok := x.m[x.v]; ok && prev != cur {
			w.violate("indicator-not-a-function-of-value", x.name, fmt.Sprintf("the %s keys show {%s} now but showed {%s} earlier for the same %s value %d", x.name, cur, prev, x.name, x.v))
		}
		x.m[x.v] = cur
	}
	for i, l := range w.srv.leds {
		key, isKey := device.LedNameToKey[l.Name]
		if !isKey {
			continue
		}
		var base = -1
		for _, k := range m.keys {
			if evdev.KEYFromString[k.key] == key {
				base = k.note
			}
		}
		if base < 0 || actionKey[l.Name] != "" {
			continue // not a mapped note key in the current mapping (action keys are judged above)
		}
		x := base + 12*w.r.oct + w.r.sem
		if x < 0 || x > 127 {
			if f[i] != col(cUnavail) {
				w.violate("out-of-range-key-not-unavailable", fmt.Sprintf("led-index-%d", min(i, 1)), fmt.Sprintf("LED %d (%s, base note %d) would play pitch %d (out of 0-127) and must show the 'unavailable' colour %v, frame has %v", i, l.Name, base, x, col(cUnavail), f[i]))
			}
			continue
		}
		want := col(cWhite)
		if m.name != "Control" {
			switch x % 12 {
			case 0:
				want = col(cC)
			case 1, 3, 6, 8, 10:
				want = col(cBlack)
			}
		}
		// applicable highlights
		ok := []openrgb.Color{}
		why := []string{}
		for _, p := range w.r.held {
			if p == x {
				ok = append(ok, col(cActive))
				why = append(why, "active (sounding from the keyboard)")
			}
		}
		onCurrent := w.r.ext[[2]int{w.r.ch, x}]
		for cp := range w.r.ext {
			if cp[1] == x {
				if cp[0] == w.r.ch {
					ok = append(ok, col(cExternal))
					why = append(why, "external (MIDI input, current channel)")
				} else if onCurrent {
					continue // a pitch sounding on the current channel shows the external colour, whatever other channels play
				} else if cc, known := chanColor[cp[0]]; known {
					ok = append(ok, cc)
					why = append(why, fmt.Sprintf("channel-%d colour (MIDI input, other channel)", cp[0]+1))
				} else {
					ok = append(ok, f[i]) // colour of that channel not learnt yet: not judged
				}
			}
		}
		if len(ok) == 0 {
			if f[i] != want {
				cls, where := "wrong-key-colour", "pitch-class"
				switch f[i] {
				case col(cExternal):
					cls, where = "stale-external-highlight", "external"
				case col(cActive):
					cls, where = "stale-active-highlight", "active"
				}
				w.violate(cls, where, fmt.Sprintf("LED %d (%s) plays pitch %d and nothing sounds there: it must show its pitch-class colour %v, frame has %v", i, l.Name, x, want, f[i]))
			}
			continue
		}
		match := false
		for _, c := range ok {
			if f[i] == c {
				match = true
			}
		}
		if !match {
			w.violate("missing-highlight", strings.Join(why, "+"), fmt.Sprintf("LED %d (%s) plays pitch %d which is %v: expected one of %v, frame has %v", i, l.Name, x, why, ok, f[i]))
		}
	}
}

func min(a, b int) int {
	if a < b {
		return a
	}
	return b
}

var learnedUpAtLast, learnedDownAtFirst string

func runLayout(res *vutil.Result, name string, leds []string, tier string) {
	srv := &server{name: "Fake Keyboard"}
	if name == "unknown-names" {
		srv.name = "HyperX Alloy Elite 2 (HP)"
		for i := 1; i <= 18; i++ {
			leds = append(leds, fmt.Sprintf("RGB Strip %d", i))
		}
	}
	for _, n := range leds {
		srv.leds = append(srv.leds, openrgb.LED{Name: n})
	}
	openrgb.VerifConnect = func(string, int) (openrgb.Server, error) { return srv, nil }
	cfg, err := config.ParseData([]byte(toml()))
	if err != nil {
		panic("VERIF-INFRA: " + err.Error())
	}
	finalRed := false
	x := vsched.Run(func() {
		out := make(chan midi.Event, 4096)
		mi := make(chan midi.Event)
		in := make(chan *input.InputEvent)
		idev := input.Device{Name: "Dummy", DeviceType: input.KeyboardDevice, Handlers: []input.Handler{hnd}, AbsInfos: map[string]map[evdev.EvCode]evdev.AbsInfo{}}
		d := device.NewDevice(idev, config.DeviceConfig{ConfigFile: "c17", Config: cfg}, out, mi, true, 6742, make(chan os.Signal, 4))
		done := make(chan struct{})
		vsched.Go("device", func() {
			d.ProcessEvents(in)
			vsched.CloseBidi(done)
		})
		vsched.Go("drainer", func() {
			vsched.Daemon()
			for {
				if _, ok := vsched.In[midi.Event](out).Recv2(); !ok {
					return
				}
			}
		})
		w := &walker{res: res, layout: name, srv: srv, in: in, mi: mi, r: ref{held: map[string]int{}, ext: map[[2]int]bool{}},
			octF: map[int]string{}, semF: map[int]string{}, mapF: map[int]string{}, chF: map[int]string{}, seen: map[string]bool{}}
		// a note arrives on MIDI input while LED feedback is still being established (the connection takes its first
		// 250 ms at least): it is still sounding when the first frame is drawn and must be shown there
		early := srv.frames == 0
		if early {
			w.midiIn(midi.NoteEvent(midi.NoteOn, 5, 61, 90), "midi NoteOn ch6/61 (before LED feedback is up)")
			w.r.ext[[2]int{5, 61}] = true
		}
		// wait for the LED loop to be up
		for srv.frames < 1 {
			vsched.SleepL(1e6, "wait-frame")
		}
		if early {
			if f := w.frame(); true {
				for i, l := range srv.leds {
					if l.Name == ledName("KEY_S") && (f[i] == col(cBlack) || f[i] == col(cWhite) || f[i] == col(cC)) { // KEY_S plays 61 in the first mapping
						w.violate("missing-highlight", "note-before-led-feedback", fmt.Sprintf("pitch 61 has been sounding on MIDI input (channel 6) since before LED feedback came up; LED %d (%s) shows the plain colour %v", i, l.Name, f[i]))
					}
				}
			}
			w.midiIn(midi.NoteEvent(midi.NoteOff, 5, 61, 0), "midi NoteOff ch6/61")
			delete(w.r.ext, [2]int{5, 61})
		}
		// learn the channel colours from the channel_up LED if present, else from a probe (a key lit by another channel)
		chanColor := map[int]openrgb.Color{}
		chans := []int{0, 1, 15}
		octs := []int{-1, 0, 1}
		if tier == "thorough" {
			chans = []int{0, 1, 2, 8, 14, 15}
			octs = []int{-2, -1, 0, 1, 2}
		}
		// learn per-channel colours: NoteOn on channel c for pitch 64 while the device is on another channel lights KEY_D (Piano, 64)
		for c := 0; c < 16; c++ {
			other := 0
			if c == 0 {
				w.tap("KEY_F6")
				other = 1
			}
			w.midiIn(midi.NoteEvent(midi.NoteOn, byte(c), 64, 100), fmt.Sprintf("midi NoteOn ch%d/64", c+1))
			f := w.frame()
			for i, l := range srv.leds {
				if l.Name == ledName("KEY_D") && f[i] != col(cBlack) && f[i] != col(cWhite) && f[i] != col(cC) && f[i] != col(cUnavail) {
					chanColor[c] = f[i]
				}
			}
			w.midiIn(midi.NoteEvent(midi.NoteOff, byte(c), 64, 0), fmt.Sprintf("midi NoteOff ch%d/64", c+1))
			if other == 1 {
				w.tap("KEY_F5")
			}
		}
		contains := func(l []int, v int) bool {
			for _, x := range l {
				if x == v {
					return true
				}
			}
			return false
		}
		heldSets := [][]string{{}, {"KEY_A"}, {"KEY_S", "KEY_X"}, {"KEY_A", "KEY_D", "KEY_Q"}, {"KEY_Z"}}
		type extOp struct {
			name string
			f    func()
		}
	walk:
		for mp := 0; mp < len(mappings); mp++ {
			for ch := 0; ch < 16; ch++ {
				if contains(chans, ch) {
					// octave walk: down to the lowest, then up
					for w.r.oct > octs[0] {
						w.tap("KEY_F1")
					}
					for {
						for w.r.sem > -1 {
							w.tap("KEY_F3")
						}
						for {
							if w.bad > 25 {
								break walk // enough evidence: go straight to the disconnect
							}
							for _, hs := range heldSets {
								for _, k := range hs {
									w.press(k)
								}
								w.check(chanColor)
								// MIDI input on the current and on another channel at pitches of mapped keys
								cur, oth := byte(w.r.ch), byte((w.r.ch+5)%16)
								p1, p2 := byte(60), byte(61)
								w.midiIn(midi.NoteEvent(midi.NoteOn, cur, p1, 90), "midi NoteOn cur/60")
								w.r.ext[[2]int{int(cur), int(p1)}] = true
								w.midiIn(midi.NoteEvent(midi.NoteOn, oth, p2, 90), "midi NoteOn other/61")
								w.r.ext[[2]int{int(oth), int(p2)}] = true
								w.check(chanColor)
								// the same pitch also on the neighbouring lower and higher channel: the current channel's highlight wins
								lowc, highc := byte((w.r.ch+15)%16), byte((w.r.ch+1)%16)
								w.midiIn(midi.NoteEvent(midi.NoteOn, lowc, p1, 90), "midi NoteOn ch-1/60")
								w.r.ext[[2]int{int(lowc), int(p1)}] = true
								w.midiIn(midi.NoteEvent(midi.NoteOn, highc, p1, 90), "midi NoteOn ch+1/60")
								w.r.ext[[2]int{int(highc), int(p1)}] = true
								w.check(chanColor)
								w.midiIn(midi.NoteEvent(midi.NoteOff, lowc, p1, 0), "midi NoteOff ch-1/60")
								delete(w.r.ext, [2]int{int(lowc), int(p1)})
								w.midiIn(midi.NoteEvent(midi.NoteOff, highc, p1, 0), "midi NoteOff ch+1/60")
								delete(w.r.ext, [2]int{int(highc), int(p1)})
								w.midiIn(midi.NoteEvent(midi.NoteOff, cur, p1, 0), "midi NoteOff cur/60")
								delete(w.r.ext, [2]int{int(cur), int(p1)})
								w.check(chanColor)
								w.midiIn(midi.NoteEvent(midi.NoteOn, oth, p2, 0), "midi NoteOn velocity 0 other/61")
								delete(w.r.ext, [2]int{int(oth), int(p2)})
								w.check(chanColor)
								if len(hs) == 1 && w.r.sem == 0 {
									// transposition changes while the key is held: its note keeps sounding at the OLD pitch, and
									// the active colour belongs to whatever key plays that pitch now
									w.tap("KEY_F2")
									w.check(chanColor)
									w.tap("KEY_F4")
									w.check(chanColor)
									w.tap("KEY_F3")
									w.tap("KEY_F1")
									w.check(chanColor)
									w.midiIn(midi.NoteEvent(midi.NoteOn, cur, 64, 1), "midi NoteOn cur/64")
									w.r.ext[[2]int{int(cur), 64}] = true
									w.midiIn(midi.NoteEvent(midi.NoteOn, cur, 64, 0), "midi NoteOn velocity 0 cur/64")
									delete(w.r.ext, [2]int{int(cur), 64})
									w.check(chanColor)
									w.midiIn(midi.NoteEvent(midi.NoteOn, cur, 61, 70), "midi NoteOn cur/61")
									w.r.ext[[2]int{int(cur), 61}] = true
									w.tap("KEY_ESC") // panic clears the external highlight
									w.check(chanColor)
									// the external keyboard releases the key that panic already silenced (a stray Note Off), then
									// releases twice: later notes on other channels must still be shown
									w.midiIn(midi.NoteEvent(midi.NoteOff, cur, 61, 0), "midi NoteOff cur/61 (already cleared by panic)")
									delete(w.r.ext, [2]int{int(cur), 61})
									w.check(chanColor)
									w.midiIn(midi.NoteEvent(midi.NoteOn, oth, p2, 90), "midi NoteOn other/61")
									w.r.ext[[2]int{int(oth), int(p2)}] = true
									w.check(chanColor)
									w.midiIn(midi.NoteEvent(midi.NoteOff, oth, p2, 0), "midi NoteOff other/61")
									delete(w.r.ext, [2]int{int(oth), int(p2)})
									w.midiIn(midi.NoteEvent(midi.NoteOn, oth, p2, 0), "midi NoteOn velocity 0 other/61 (duplicate release)")
									w.midiIn(midi.NoteEvent(midi.NoteOn, highc, p1, 90), "midi NoteOn ch+1/60")
									w.r.ext[[2]int{int(highc), int(p1)}] = true
									w.check(chanColor)
									w.midiIn(midi.NoteEvent(midi.NoteOff, highc, p1, 0), "midi NoteOff ch+1/60")
									delete(w.r.ext, [2]int{int(highc), int(p1)})
									w.check(chanColor)
								}
								for _, k := range hs {
									w.release(k)
								}
							}
							if w.r.sem >= 1 {
								break
							}
							w.tap("KEY_F4")
						}
						if w.r.oct >= octs[len(octs)-1] {
							break
						}
						w.tap("KEY_F2")
					}
					for w.r.oct > 0 {
						w.tap("KEY_F1")
					}
					for w.r.sem > 0 {
						w.tap("KEY_F3")
					}
				}
				if ch < 15 {
					w.tap("KEY_F6")
				}
			}
			for w.r.ch > 0 {
				w.tap("KEY_F5")
			}
			if mp < len(mappings)-1 {
				// a key that has a note here but no function in the next mapping is held across the switch and released
				// there (its note keeps sounding until then): the frame follows every one of these steps
				lost := ""
				for _, k := range mappings[mp].keys {
					has := false
					for _, k2 := range mappings[mp+1].keys {
						if k2.key == k.key {
							has = true
						}
					}
					if !has {
						for _, k2 := range mappings[mp+1].keys {
							if k2.note == k.note { // its pitch is on another key there: that key's LED shows it while it sounds
								lost = k.key
							}
						}
					}
				}
				if lost != "" {
					w.press(lost)
					w.check(chanColor)
				}
				w.tap("KEY_F12")
				if lost != "" {
					w.check(chanColor)
					w.release(lost)
					w.check(chanColor)
					w.tap("KEY_F11") // ... and the other way round: back, hold, forth, release
					w.press(lost)
					w.tap("KEY_F12")
					w.release(lost)
					w.check(chanColor)
				}
			}
		}
		// indicators must distinguish the values
		hasLED := func(action string) bool {
			for _, l := range srv.leds {
				for k, a := range actions {
					if a == action && ledName(k) == l.Name {
						return true
					}
				}
			}
			return false
		}
		distinct := func(m map[int]string, name string, vals ...int) {
			// the up key shows the values above neutral, the down key those below: a value can only be told
			// from the others when both keys of the pair have an LED in this layout
			if !hasLED(name+"_up") || !hasLED(name+"_down") {
				return
			}
			seen := map[string]int{}
			for _, v := range vals {
				s, ok := m[v]
				if !ok {
					continue
				}
				if u, dup := seen[s]; dup {
					w.violate("indicator-does-not-distinguish-values", name, fmt.Sprintf("the %s keys look the same ({%s}) for %s %d and %d", name, s, name, u, v))
				}
				seen[s] = v
			}
		}
		distinct(w.octF, "octave", -1, 0, 1)
		distinct(w.semF, "semitone", -1, 0, 1)
		distinct(w.mapF, "mapping", 0, 1, 2)
		distinct(w.chF, "channel", chans...)
		// "nothing further in this direction": the mapping_up key at the LAST mapping and the mapping_down key at the FIRST one.
		// A configuration with a single mapping is at both ends at once: each key must look as it looks at its own end.
		colourOf := func(s, action string) string {
			for _, f := range strings.Fields(s) {
				if strings.HasPrefix(f, action+"=") {
					return strings.TrimPrefix(f, action+"=")
				}
			}
			return ""
		}
		switch len(mappings) {
		case 3:
			learnedUpAtLast, learnedDownAtFirst = colourOf(w.mapF[2], "mapping_up"), colourOf(w.mapF[0], "mapping_down")
		case 1:
			up, down := colourOf(w.mapF[0], "mapping_up"), colourOf(w.mapF[0], "mapping_down")
			if learnedUpAtLast != "" && up != "" && up != learnedUpAtLast {
				w.violate("mapping-indicator-single-mapping", "mapping_up", fmt.Sprintf("with a single mapping the mapping_up key shows %s; at the last of several mappings it shows %s", up, learnedUpAtLast))
			}
			if learnedDownAtFirst != "" && down != "" && down != learnedDownAtFirst {
				w.violate("mapping-indicator-single-mapping", "mapping_down", fmt.Sprintf("with a single mapping the mapping_down key shows %s; at the first of several mappings it shows %s", down, learnedDownAtFirst))
			}
		}
		// disconnect with a key held: the last frame must be all red
		w.press("KEY_A")
		vsched.CloseBidi(in)
		vsched.In[struct{}](done).Recv()
		finalRed = true
		for _, c := range srv.last {
			if c != (openrgb.Color{Red: 0xff}) {
				finalRed = false
			}
		}
		res.Add("evaluations", 1)
		if !finalRed {
			w.violate("final-frame-not-red", name, fmt.Sprintf("after disconnect the last frame is %v", srv.last))
		}
		vsched.CloseBidi(out)
	}, nil, vsched.Options{MaxPoints: maxPts, DefaultSleepBudget: 0})
	if x.HorizonHit {
		res.Infra = fmt.Sprintf("layout %s: scheduling-point horizon hit after %d points (frames=%d): the walk does not make progress", name, len(x.Points), srv.frames)
	}
	if x.Panic != "" {
		res.Violate("led-loop-panics", name, x.Panic, map[string]interface{}{"layout": name, "led_names": leds})
	}
	if len(x.Blocked) > 0 {
		res.Violate("device-does-not-terminate", name, fmt.Sprintf("blocked: %v", x.Blocked), nil)
	}
	res.Add("scheduling_points", int64(len(x.Points)))
	res.Distinct("layout:" + name)
}

func main() {
	out := flag.String("out", "", "")
	shard := flag.Int("shard", 0, "")
	nshards := flag.Int("nshards", 1, "")
	tier := flag.String("tier", "quick", "")
	flag.Int("bound", 0, "")
	flag.Duration("budget", 0, "")
	flag.Int("scenario", 0, "")
	list := flag.Bool("list", false, "")
	flag.Parse()
	if *list {
		fmt.Println("0 all")
		return
	}
	runtime.GOMAXPROCS(1)
	go func() {
		for range logger.Messages {
		}
	}()
	root, err := os.MkdirTemp("", "verif_c17_sys")
	if err != nil {
		panic(err)
	}
	defer os.RemoveAll(root)
	os.MkdirAll(filepath.Join(root, "sys/class/hidraw/hidraw0/device/input/input7/event3"), 0o755)
	vsched.SysRoot = root
	res := vutil.NewResult()
	ls := layouts(*tier)
	var names []string
	for n := range ls {
		names = append(names, n)
	}
	sort.Strings(names)
	for i, n := range names {
		if i%*nshards != *shard {
			continue
		}
		if n == "single-mapping" {
			// the same device with ONE mapping (first and last at once), after a run with three that shows how each end looks
			runLayout(res, "single-mapping (reference run with three mappings)", ls[n], "quick")
			saved := mappings
			mappings = mappings[:1]
			runLayout(res, n, ls[n], "quick")
			mappings = saved
		} else {
			runLayout(res, n, ls[n], *tier)
		}
		res.Sample(map[string]interface{}{"layout": n, "leds": ls[n]})
	}
	os.RemoveAll(root)
	res.Write(*out)
}
