"""Shared plumbing for /verif/vcheck: overlay build of /repo's working tree,
parallel job running, evidence files, known-findings matching, replay files."""
import hashlib
import json
import os
import shutil
import subprocess
import sys
import tempfile
import time
from concurrent.futures import ThreadPoolExecutor

VERIF = os.path.dirname(os.path.dirname(os.path.abspath(__file__)))
REPO = os.environ.get("VERIF_REPO", "/repo")
BUILD = os.path.join(VERIF, "build")
NCPU = os.cpu_count() or 4


class Infra(Exception):
    """Infrastructure failure (exit 2, never a VIOLATION)."""


def goenv():
    e = dict(os.environ)
    e.update({
        "GOFLAGS": "-mod=mod", "GOPROXY": "off", "GOSUMDB": "off", "GOTOOLCHAIN": "local",
        "GODEBUG": "goindex=0", "CGO_ENABLED": "0",
    })
    return e


def _walk_files(root):
    for dp, _dn, fn in os.walk(root):
        for f in fn:
            yield os.path.join(dp, f)


def modcache_dir(mod_at_ver):
    out = subprocess.run(["go", "env", "GOMODCACHE"], capture_output=True, text=True, env=goenv()).stdout.strip()
    return os.path.join(out, mod_at_ver)


def make_overlay(tag, extra=None, fakes=()):
    """Overlay = in-package export files + every /verif/harness/<pkg> mapped to
    $REPO/internal/verif/<pkg> (+ optional extra mappings). Returns the json path."""
    rep = {}
    ov = os.path.join(VERIF, "overlay")
    rep[os.path.join(REPO, "internal/pkg/midi/device/zz_verif_export.go")] = os.path.join(ov, "device/zz_verif_export.go")
    rep[os.path.join(REPO, "internal/pkg/input/zz_verif_export.go")] = os.path.join(ov, "input/zz_verif_export.go")
    rep[os.path.join(REPO, "internal/pkg/midi/driver/alsa/alsa.go")] = os.path.join(ov, "alsa/alsa_stub.go")
    rep[os.path.join(REPO, "cmd/hidi/zz_verif_hook.go")] = os.path.join(ov, "hidi/zz_verif_hook.go")
    rep[os.path.join(REPO, "cmd/hidi/zz_verif_log.go")] = os.path.join(ov, "hidi/zz_verif_log.go")
    hroot = os.path.join(VERIF, "harness")
    for f in _walk_files(hroot):
        if f.endswith(".go"):
            rel = os.path.relpath(f, hroot)
            rep[os.path.join(REPO, "internal/verif", rel)] = f
    for fake in fakes:
        rep.update(fake_package(fake))
    if extra:
        rep.update(extra)
    d = os.path.join(BUILD, tag)
    os.makedirs(d, exist_ok=True)
    p = os.path.join(d, "overlay.json")
    with open(p, "w") as fh:
        json.dump({"Replace": rep}, fh, indent=1)
    return p


FAKE_MODS = {
    "openrgb": ("github.com/realbucksavage/openrgb-go@v0.0.0-20220821164356-dc79903db082", "fake_openrgb"),
    "fsnotify": ("github.com/fsnotify/fsnotify@v1.5.1", "fake_fsnotify"),
}


def fake_package(name):
    """Replace every .go file of a module-cache package by a stub, and add our fake."""
    mod, src = FAKE_MODS[name]
    d = modcache_dir(mod)
    rep = {}
    srcdir = os.path.join(VERIF, "overlay", src)
    pkgname = None
    fakes = sorted(f for f in os.listdir(srcdir) if f.endswith(".go"))
    with open(os.path.join(srcdir, fakes[0])) as fh:
        for line in fh:
            if line.startswith("package "):
                pkgname = line.split()[1]
                break
    stub = os.path.join(BUILD, "stub_%s.go" % pkgname)
    os.makedirs(BUILD, exist_ok=True)
    with open(stub, "w") as fh:
        fh.write("package %s\n" % pkgname)
    for f in os.listdir(d):
        if f.endswith(".go"):
            rep[os.path.join(d, f)] = stub
    for f in fakes:
        rep[os.path.join(d, "zz_" + f)] = os.path.join(srcdir, f)
    return rep


def build_instr():
    """build the source instrumenter (own module under /verif/tools/instr, x/tools v0.29.0 from the module cache)"""
    out = os.path.join(BUILD, "bin", "instr")
    os.makedirs(os.path.dirname(out), exist_ok=True)
    env = goenv()
    env.pop("GODEBUG", None)
    run(["go", "build", "-o", out, "."], cwd=os.path.join(VERIF, "tools", "instr"), env=env, timeout=600)
    return out


def instrument(tag, files, sysroot=False, mapall=(), access=()):
    """instrument repo files from the CURRENT working tree; returns overlay mappings original -> rewritten"""
    instr = build_instr()
    outdir = os.path.join(BUILD, tag, "instr")
    shutil.rmtree(outdir, ignore_errors=True)
    cmd = [instr, "-repo", REPO, "-out", outdir, "-files", ",".join(files)]
    if sysroot:
        cmd.append("-sysroot")
    if mapall:
        cmd += ["-mapall", ",".join(mapall)]
    if access:
        cmd += ["-access", ",".join(access)]
    env = goenv()
    env.pop("GODEBUG", None)
    p = subprocess.run(cmd, env=env, capture_output=True, text=True, timeout=600)
    if p.returncode != 0:
        raise Infra("instrumenter refused or failed (exit %d): %s" % (p.returncode, (p.stdout + p.stderr)[-3000:]))
    return {os.path.join(REPO, f): os.path.join(outdir, f) for f in files}


def run(cmd, cwd=None, env=None, timeout=None, check=True, capture=True):
    p = subprocess.run(cmd, cwd=cwd, env=env or goenv(), timeout=timeout,
                       stdout=subprocess.PIPE if capture else None,
                       stderr=subprocess.STDOUT if capture else None, text=True)
    if check and p.returncode != 0:
        raise Infra("command failed (%d): %s\n%s" % (p.returncode, " ".join(cmd), (p.stdout or "")[-4000:]))
    return p


def build(pkg, tag="default", overlay=None, out=None, tags="verif", race=False, cgo=False, pkgpath=None):
    """go build ./internal/verif/<pkg> from REPO's working tree with the overlay."""
    overlay = overlay or make_overlay(tag)
    bindir = os.path.join(BUILD, "bin")
    os.makedirs(bindir, exist_ok=True)
    out = out or os.path.join(bindir, pkg.replace("/", "_") + ("_race" if race else ""))
    cmd = ["go", "build", "-tags", tags, "-overlay", overlay, "-o", out]
    if race:
        cmd.append("-race")
    cmd.append(pkgpath or ("./internal/verif/" + pkg))
    env = goenv()
    if race or cgo:
        env["CGO_ENABLED"] = "1"
    t0 = time.time()
    run(cmd, cwd=REPO, env=env, timeout=900)
    return out, time.time() - t0


def run_jobs(jobs, workers=None, timeout=3600):
    """jobs: list of (argv, result_path). Runs in parallel; returns list of parsed
    result dicts. A job that exits non-zero without a result file is an Infra error."""
    workers = workers or NCPU

    def one(job):
        argv, res = job
        if os.path.exists(res):
            os.remove(res)
        p = subprocess.run(argv, stdout=subprocess.PIPE, stderr=subprocess.STDOUT, text=True, env=goenv(), timeout=timeout)
        if not os.path.exists(res):
            raise Infra("job produced no result (exit %d): %s\n%s" % (p.returncode, " ".join(argv), p.stdout[-6000:]))
        with open(res) as fh:
            r = json.load(fh)
        r["_log"] = p.stdout[-2000:]
        if r.get("infra"):
            raise Infra("job reported infrastructure failure: %s\n%s" % (r["infra"], p.stdout[-3000:]))
        return r

    with ThreadPoolExecutor(max_workers=workers) as ex:
        return list(ex.map(one, jobs))


def merge(results):
    """Sum numeric coverage counters, concatenate samples/violations, AND exhaustive."""
    out = {"violations": [], "samples": [], "exhaustive": True, "counters": {}, "notes": [], "distinct_keys": set()}
    for r in results:
        for k, v in (r.get("counters") or {}).items():
            out["counters"][k] = out["counters"].get(k, 0) + v
        out["violations"].extend(r.get("violations") or [])
        for s in (r.get("samples") or []):
            if len(out["samples"]) < 12:
                out["samples"].append(s)
        out["exhaustive"] = out["exhaustive"] and bool(r.get("exhaustive", False))
        out["notes"].extend(r.get("notes") or [])
        out["distinct_keys"].update(r.get("distinct_keys") or [])
    return out


# ---------------------------------------------------------------- findings

def load_findings():
    p = os.path.join(VERIF, "known_findings.json")
    if not os.path.exists(p):
        return []
    with open(p) as fh:
        return json.load(fh)["findings"]


def _match(pred, viol):
    """pred: dict field -> expected value (exact) ; field may be dotted into detail."""
    for k, want in pred.items():
        cur = viol
        for part in k.split("."):
            if isinstance(cur, dict) and part in cur:
                cur = cur[part]
            else:
                cur = None
                break
        if isinstance(want, list):
            if cur not in want:
                return False
        elif cur != want:
            return False
    return True


def classify(prop, violations):
    """Split violations into (unknown, {finding_id: [violations]}) using OPEN findings only."""
    findings = [f for f in load_findings() if f["property"] == prop and f.get("status") == "open"]
    unknown, known = [], {}
    for v in violations:
        hit = None
        for f in findings:
            if _match(f["match"], v):
                hit = f
                break
        if hit:
            known.setdefault(hit["id"], []).append(v)
        else:
            unknown.append(v)
    return unknown, known, {f["id"]: f for f in findings}


def write_replay(prop, viol):
    d = os.path.join(VERIF, "replays", prop)
    os.makedirs(d, exist_ok=True)
    blob = json.dumps(viol, sort_keys=True, indent=1)
    h = hashlib.sha1(blob.encode()).hexdigest()[:12]
    p = os.path.join(d, h + ".json")
    with open(p, "w") as fh:
        fh.write(blob)
    return p


def write_evidence(prop, tier, level, coverage, assumptions, wall, nviol):
    seed = int(os.environ.get("VERIF_SEED", "0") or 0)
    ev = {
        "property_id": prop, "tier": tier, "seed": seed, "level": level,
        "coverage": coverage, "assumptions": assumptions, "wall_s": round(wall, 2), "violations": nviol,
    }
    os.makedirs(os.path.join(VERIF, "evidence"), exist_ok=True)
    p = os.path.join(VERIF, "evidence", prop + ".json")
    tmp = p + ".tmp"
    with open(tmp, "w") as fh:
        json.dump(ev, fh, indent=1, sort_keys=True)
    os.replace(tmp, p)
    validate_evidence(p)
    return p


def validate_evidence(p):
    try:
        import jsonschema  # only in the tooling venv; optional
    except Exception:
        return
    with open("/root/.vp/EVIDENCE.schema.json") as fh:
        schema = json.load(fh)
    with open(p) as fh:
        jsonschema.validate(json.load(fh), schema)


def finish(prop, tier, level, merged, coverage, assumptions, t0):
    """Common tail: classify violations, write replays + evidence, print lines, return exit code."""
    unknown, known, fmap = classify(prop, merged["violations"])
    coverage = dict(coverage)
    coverage.setdefault("samples", merged["samples"] or ["(none)"])
    coverage["exhaustive"] = bool(merged["exhaustive"])
    coverage["violations_by_class"] = {}
    for v in merged["violations"]:
        c = v.get("class", "?")
        coverage["violations_by_class"][c] = coverage["violations_by_class"].get(c, 0) + 1
    if merged["notes"]:
        coverage["notes"] = sorted(set(merged["notes"]))[:20]
    write_evidence(prop, tier, level, coverage, assumptions, time.time() - t0, len(unknown))
    for fid, vs in sorted(known.items()):
        print("KNOWN-FINDING: property=%s %s [%s] (%d occurrence(s) this run)" % (prop, fmap[fid]["what"], fid, len(vs)))
    if unknown:
        seen = set()
        for v in unknown:
            c = v.get("class", "?")
            if c in seen:
                continue
            seen.add(c)
            p = write_replay(prop, v)
            print("VIOLATION property=%s replay=%s" % (prop, p))
            print("  class=%s: %s" % (c, v.get("what", "")))
            if len(seen) >= 10:
                break
        return 1
    print("OK property=%s tier=%s %s" % (prop, tier, json.dumps({k: v for k, v in coverage.items() if isinstance(v, (int, bool))})))
    return 0
