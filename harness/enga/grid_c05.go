//go:build verif

package main

import (
	"fmt"
	"os"
	"strings"

	"github.com/gethiox/HIDI/internal/pkg/input"
	"github.com/gethiox/HIDI/internal/pkg/midi"
	"github.com/gethiox/HIDI/internal/pkg/midi/device"
	"github.com/gethiox/HIDI/internal/pkg/midi/device/config"
	"github.com/gethiox/HIDI/internal/verif/vutil"
	"github.com/holoplot/go-evdev"
)

// C05(2): corner configurations. The REAL parser decides which are accepted; every accepted one
// gets a device that is driven with all keys, panic on every reachable channel and every raw
// value of each 8-bit axis; every emitted message must be a well-formed 3-byte channel message.

type c05Cfg struct {
	Channel, Velocity, KeyOff, AxOff, AxOffNeg, CC, Octave int
}

func (c c05Cfg) toml() string {
	var b strings.Builder
	fmt.Fprintf(&b, "collision_mode = \"interrupt\"\nexit_sequence = []\n[identifier]\nbus = 0\n[defaults]\noctave = %d\nsemitone = 0\nchannel = %d\nmapping = \"M0\"\nvelocity = %d\n", c.Octave, c.Channel, c.Velocity)
	b.WriteString("[action_mapping]\nKEY_ESC = \"panic\"\nKEY_F6 = \"channel_up\"\nKEY_F5 = \"channel_down\"\nKEY_F8 = \"cc_learning\"\n")
	b.WriteString("[[mapping]]\nname = \"M0\"\n[[mapping.keys]]\nsubhandler = \"\"\n[mapping.keys.map]\n")
	fmt.Fprintf(&b, "KEY_A = \"0,%d\"\nKEY_S = \"127,%d\"\nKEY_D = \"c3\"\n", c.KeyOff, c.KeyOff)
	b.WriteString("[[mapping.analog]]\nsubhandler = \"\"\ndefault_deadzone = 0.1\n[mapping.analog.map]\n")
	fmt.Fprintf(&b, "ABS_X = { type = \"cc\", cc = %d, cc_negative = %d, channel_offset = %d, channel_offset_negative = %d }\n", c.CC, c.CC, c.AxOff, c.AxOffNeg)
	fmt.Fprintf(&b, "ABS_Y = { type = \"pitch_bend\", channel_offset = %d, flip_axis = true }\n", c.AxOff)
	fmt.Fprintf(&b, "ABS_Z = { type = \"cc\", cc = %d, channel_offset = %d, deadzone_at_center = true }\n", c.CC, c.AxOff)
	fmt.Fprintf(&b, "ABS_RZ = { type = \"cc\", cc = %d, cc_negative = 1, channel_offset = %d, deadzone_at_center = true, flip_axis = true }\n", c.CC, c.AxOff)
	fmt.Fprintf(&b, "ABS_RX = { type = \"cc\", cc = %d, channel_offset = %d }\n", c.CC, c.AxOff)
	fmt.Fprintf(&b, "ABS_HAT0X = { type = \"key\", note = 127, note_negative = 0, channel_offset = %d, channel_offset_negative = %d }\n", c.AxOff, c.AxOffNeg)
	fmt.Fprintf(&b, "ABS_HAT0Y = { type = \"pitch_bend\", channel_offset = %d }\n", c.AxOffNeg)
	fmt.Fprintf(&b, "ABS_THROTTLE = { type = \"pitch_bend\", deadzone_at_center = true }\n")
	b.WriteString("[mapping.analog.deadzones]\nABS_HAT0X = 0.0\nABS_HAT0Y = 0.0\nABS_RX = 0.0\n")
	return b.String()
}

type c05Axis struct {
	name     string
	min, max int32
}

var c05Axes = []c05Axis{
	{"ABS_X", -128, 127}, {"ABS_Y", -128, 127}, {"ABS_Z", 0, 255}, {"ABS_RZ", 0, 255}, {"ABS_RX", 0, 255},
	{"ABS_HAT0X", -1, 1}, {"ABS_HAT0Y", -1, 1}, {"ABS_THROTTLE", 0, 255},
}

func gridC05(res *vutil.Result, tier string, shard, nshards int) {
	chans := []int{-1, 0, 1, 2, 15, 16, 17, 255, 256, 257}
	vels := []int{0, 1, 127, 128, -1}
	koffs := []int{0, 15, 16}
	aoffs := []int{-1, 0, 15, 16, 255, 256}
	ccs := []int{0, 119, 120, 127}
	octs := []int{0}
	if tier == "thorough" {
		chans = append(chans, 3, 8, 32, 128, -16, 65536)
		aoffs = append(aoffs, 1, 7, -16, 241, 65535)
		octs = []int{0, 10, -10, 11}
	}
	n := 0
	for _, ch := range chans {
		for _, vel := range vels {
			for _, ko := range koffs {
				for _, ao := range aoffs {
					for _, cc := range ccs {
						for _, oc := range octs {
							n++
							if n%nshards != shard {
								continue
							}
							aon := ao
							if ao == 0 {
								aon = 15
							}
							runC05(res, c05Cfg{ch, vel, ko, ao, aon, cc, oc})
						}
					}
				}
			}
		}
	}
}

func runC05(res *vutil.Result, c c05Cfg) {
	text := c.toml()
	res.Add("evaluations", 1)
	cfg, err := config.ParseData([]byte(text))
	if err != nil {
		res.Add("rejected_by_parser", 1)
		if os.Getenv("VERIF_DEBUG") != "" {
			fmt.Fprintf(os.Stderr, "%+v rejected: %v\n", c, err)
		}
		return
	}
	res.Add("accepted_by_parser", 1)
	res.Distinct(fmt.Sprintf("%+v", c))
	abs := map[evdev.EvCode]evdev.AbsInfo{}
	for _, a := range c05Axes {
		abs[evdev.ABSFromString[a.name]] = evdev.AbsInfo{Minimum: a.min, Maximum: a.max}
	}
	in := input.Device{Name: "Dummy", DeviceType: input.JoystickDevice, Handlers: []input.Handler{handler},
		AbsInfos: map[string]map[evdev.EvCode]evdev.AbsInfo{"event0": abs}}
	out := make(chan midi.Event, 1024)
	dev := device.NewDevice(in, config.DeviceConfig{ConfigFile: "c05", Config: cfg}, out, nil, true, 1, make(chan os.Signal, 4))
	nmsg := 0
	bad := false
	step := func(what string, ev *input.InputEvent) {
		if bad {
			return
		}
		if p := safeStep(&dev, ev); p != "" {
			bad = true
			res.Violate("event-processing-panics", fmt.Sprintf("channel=%d", c.Channel), fmt.Sprintf("accepted configuration %+v: %s panicked: %s", c, what, p), map[string]interface{}{"config": fmt.Sprintf("%+v", c), "toml": text, "event": what})
			return
		}
		for len(out) > 0 {
			m := <-out
			nmsg++
			ok := len(m) == 3 && m[1] < 128 && m[2] < 128
			if ok {
				switch m[0] & 0xf0 {
				case 0x80, 0x90, 0xb0, 0xe0:
				default:
					ok = false
				}
			}
			if !ok && !bad {
				bad = true
				res.Violate("malformed-message", malformedWhere(c, m), fmt.Sprintf("parser-accepted configuration %+v: %s emitted [% x], not a valid 3-byte NoteOn/NoteOff/CC/PitchBend message", c, what, []byte(m)),
					map[string]interface{}{"config": fmt.Sprintf("%+v", c), "toml": text, "event": what, "message": fmt.Sprintf("% x", []byte(m))})
			}
		}
	}
	key := func(name string, v int32) *input.InputEvent {
		return &input.InputEvent{Source: handler, Event: evdev.InputEvent{Type: evdev.EV_KEY, Code: evdev.KEYFromString[name], Value: v}}
	}
	axis := func(name string, v int32) *input.InputEvent {
		return &input.InputEvent{Source: handler, Event: evdev.InputEvent{Type: evdev.EV_ABS, Code: evdev.ABSFromString[name], Value: v}}
	}
	drive := func(tag string) {
		for _, k := range []string{"KEY_A", "KEY_S", "KEY_D"} {
			step(tag+" press "+k, key(k, 1))
			step(tag+" release "+k, key(k, 0))
		}
		step(tag+" panic", key("KEY_ESC", 1))
		step(tag+" panic release", key("KEY_ESC", 0))
		for _, a := range c05Axes {
			if a.max-a.min > 2 && !strings.HasPrefix(tag, "ch+0 ") && !strings.HasPrefix(tag, "ch+15") {
				// full sweeps on the first and last channel; end points and centre elsewhere
				for _, v := range []int32{a.min, (a.min + a.max) / 2, a.max, a.min} {
					step(fmt.Sprintf("%s %s=%d", tag, a.name, v), axis(a.name, v))
				}
				continue
			}
			for v := a.min; v <= a.max; v++ {
				step(fmt.Sprintf("%s %s=%d", tag, a.name, v), axis(a.name, v))
			}
			for v := a.max; v >= a.min; v -= 3 {
				step(fmt.Sprintf("%s %s=%d", tag, a.name, v), axis(a.name, v))
			}
		}
	}
	drive("ch+0 ")
	for i := 1; i <= 16; i++ {
		step("channel_up", key("KEY_F6", 1))
		step("channel_up release", key("KEY_F6", 0))
		drive(fmt.Sprintf("ch+%d ", i))
	}
	step("learning on", key("KEY_F8", 1))
	for _, a := range c05Axes {
		for v := a.min; v <= a.max; v += 7 {
			step(fmt.Sprintf("learning %s=%d", a.name, v), axis(a.name, v))
		}
	}
	step("learning off", key("KEY_F8", 0))
	for i := 1; i <= 17; i++ {
		step("channel_down", key("KEY_F5", 1))
		step("channel_down release", key("KEY_F5", 0))
		if i%4 == 1 || i >= 16 {
			drive(fmt.Sprintf("ch-%d ", i))
		}
	}
	res.Add("messages_checked", int64(nmsg))
	if len(res.Samples) < 3 {
		res.Sample(map[string]interface{}{"config": fmt.Sprintf("%+v", c), "accepted": true, "messages_checked": nmsg})
	}
}

func malformedWhere(c c05Cfg, m midi.Event) string {
	if len(m) == 3 && m[0]&0xf0 == 0xf0 {
		return fmt.Sprintf("status-0xF?/default-channel=%d", c.Channel)
	}
	return fmt.Sprintf("default-channel=%d", c.Channel)
}
