//go:build verif

package main

import (
	"crypto/sha256"
	"encoding/binary"
	"fmt"
	"os"
	"runtime"
	"strings"
	"sync"
	"sync/atomic"
	"time"

	"github.com/gethiox/HIDI/internal/pkg/input"
	"github.com/gethiox/HIDI/internal/pkg/midi"
	"github.com/gethiox/HIDI/internal/pkg/midi/device"
	"github.com/gethiox/HIDI/internal/verif/vutil"
	"github.com/holoplot/go-evdev"
)

// Drv: what the driver (the "kernel") knows: which keys are physically down, where each axis is.
type Drv struct {
	Held uint64   // bit i: alphabet symbol i (a key) is down
	Axis [6]int16 // per axis ordinal: index into Pos, -1 = never moved
}

type StepCtx struct {
	S        *Scenario
	Ev       Event
	Sym      *Sym
	Pre      Ref
	Post     Ref
	PreDrv   Drv
	PostDrv  Drv
	Msgs     []midi.Event
	Sigs     int
	DumpPre  string
	DumpPost string
	Dev      *device.Device
	In       *input.InputEvent
	w        *worker
	viol     func(class, what string)
}

type Monitor interface {
	Step(c *StepCtx)
	Key(b *strings.Builder)
	Clone(w *worker) Monitor
}

type Scenario struct {
	D          *Desc
	Alpha      []Sym
	axisOrd    map[int]int       // alphabet index -> axis ordinal
	axisDesc   map[int]*AxisDesc // alphabet index -> description in the DEFAULT mapping holding it
	NewMons    func(s *Scenario, w *worker) []Monitor
	Repeat     bool // offer key-repeat probes
	BeyondExit bool // keep exploring after the exit signal was raised (sequence keys released and completed again)
	MaxState   int
}

type node struct {
	dev  *device.Device
	ref  Ref
	drv  Drv
	mons []Monitor
	id   int32
	dump string
	term bool
}

type meta struct {
	parent  int32
	ev      Event
	outHash [8]byte // hash of every message emitted along the witness path
	depth   int32
}

type busy struct {
	id int32
	ev Event
}

type worker struct {
	out  chan midi.Event
	sigs chan os.Signal
	// watchdog
	busySince atomic.Int64
	busyWhat  atomic.Value
}

func newWorker() *worker {
	return &worker{out: make(chan midi.Event, 1<<14), sigs: make(chan os.Signal, 64)}
}

func (w *worker) drain() ([]midi.Event, int) {
	var ms []midi.Event
	for {
		select {
		case m := <-w.out:
			ms = append(ms, m)
			continue
		default:
		}
		break
	}
	n := 0
	for {
		select {
		case <-w.sigs:
			n++
			continue
		default:
		}
		break
	}
	return ms, n
}

type Explorer struct {
	S   *Scenario
	Res *vutil.Result

	mu      sync.Mutex
	metas   []meta
	visited [256]struct {
		sync.Mutex
		m map[[16]byte]int32
	}
	transitions atomic.Int64
	replays     atomic.Int64
	outcomes    sync.Map // distinct step-output signatures
	nOutcomes   atomic.Int64
	capped      bool
	violStates  atomic.Int64
	doReplay    bool
	stopAll     atomic.Bool
	hitCap      atomic.Bool
}

func hashOut(prev [8]byte, msgs []midi.Event) [8]byte {
	h := sha256.New()
	h.Write(prev[:])
	for _, m := range msgs {
		h.Write([]byte{byte(len(m))})
		h.Write(m)
	}
	var o [8]byte
	copy(o[:], h.Sum(nil))
	return o
}

func (e *Explorer) key(n *node) [16]byte {
	var b strings.Builder
	b.WriteString(n.dump)
	fmt.Fprintf(&b, "|%v|%v|", n.ref, n.drv)
	for _, m := range n.mons {
		m.Key(&b)
		b.WriteByte('|')
	}
	s := sha256.Sum256([]byte(b.String()))
	var k [16]byte
	copy(k[:], s[:16])
	return k
}

func (e *Explorer) witness(id int32) []Event {
	var evs []Event
	e.mu.Lock()
	for id > 0 {
		m := e.metas[id]
		evs = append(evs, m.ev)
		id = m.parent
	}
	e.mu.Unlock()
	for i, j := 0, len(evs)-1; i < j; i, j = i+1, j-1 {
		evs[i], evs[j] = evs[j], evs[i]
	}
	return evs
}

func (e *Explorer) witnessStrings(id int32, extra ...Event) []string {
	evs := append(e.witness(id), extra...)
	out := make([]string, len(evs))
	for i, ev := range evs {
		out[i] = ev.String(e.S.Alpha)
	}
	return out
}

func msgStrings(ms []midi.Event) []string {
	out := make([]string, len(ms))
	for i, m := range ms {
		out[i] = fmt.Sprintf("% x", []byte(m))
	}
	if len(out) > 24 {
		out = append(out[:24], fmt.Sprintf("... (%d messages)", len(ms)))
	}
	return out
}

// enabled: the events the driver can deliver in this node.
func (e *Explorer) enabled(n *node) []Event {
	var evs []Event
	s := e.S
	for i := range s.Alpha {
		sym := &s.Alpha[i]
		if sym.IsAxis {
			ord := s.axisOrd[i]
			for pi, p := range sym.Pos {
				if int(n.drv.Axis[ord]) == pi {
					continue // the kernel does not report an unchanged position
				}
				evs = append(evs, Event{i, p})
			}
			continue
		}
		held := n.drv.Held&(1<<uint(i)) != 0
		if held {
			evs = append(evs, Event{i, 0})
			if s.Repeat {
				evs = append(evs, Event{i, 2})
			}
		} else if n.ref.Offer(s.D, *sym, 1) {
			evs = append(evs, Event{i, 1})
		}
	}
	return evs
}

func (e *Explorer) exitCompletes(drv Drv) bool {
	if len(e.S.D.Exit) == 0 {
		return false
	}
	for _, k := range e.S.D.Exit {
		found := false
		for i := range e.S.Alpha {
			if !e.S.Alpha[i].IsAxis && e.S.Alpha[i].Code == keyCode(k) && drv.Held&(1<<uint(i)) != 0 {
				found = true
			}
		}
		if !found {
			return false
		}
	}
	return true
}

// apply the reference semantics of one event
func (e *Explorer) refStep(pre Ref, preDrv Drv, ev Event) (Ref, Drv, bool) {
	s := e.S
	sym := &s.Alpha[ev.Sym]
	post, drv := pre, preDrv
	if sym.IsAxis {
		for pi, p := range sym.Pos {
			if p == ev.Val {
				drv.Axis[s.axisOrd[ev.Sym]] = int16(pi)
			}
		}
		// an axis that switches CC-learning (positive direction only): held beyond half travel, released in the rest zone
		// and on the other side, unchanged inside the 49-50 % band
		if a := s.axisDesc[ev.Sym]; a != nil && a.Type == "action" && a.Action == "cc_learning" && a.ActNeg == "" {
			v := KeyEmuValue(a, ev.Val)
			switch {
			case v.Cmp(rat(1, 2)) >= 0:
				post.Learning = true
			case v.Cmp(rat(49, 100)) < 0:
				post.Learning = false
			}
		}
		return post, drv, false
	}
	switch ev.Val {
	case 1:
		drv.Held |= 1 << uint(ev.Sym)
		if e.exitCompletes(drv) {
			return post, drv, true // swallowed: no note, no action
		}
		if sym.Action != "" {
			post.ActionPress(s.D, sym.Action)
		}
	case 0:
		drv.Held &^= 1 << uint(ev.Sym)
		if sym.Action != "" {
			post.ActionRelease(s.D, sym.Action)
		}
	}
	return post, drv, false
}

func (e *Explorer) Run(workers int) {
	s := e.S
	for i := range e.visited {
		e.visited[i].m = map[[16]byte]int32{}
	}
	w0 := newWorker()
	dev, err := s.D.Build(w0.out, w0.sigs)
	if err != nil {
		e.Res.Infra = err.Error()
		return
	}
	// sparsify the root once (clone drops the 2048 zero counters)
	root := &node{dev: device.VerifClone(dev, w0.out, w0.sigs), ref: NewRef(s.D), id: 0}
	for i := range root.drv.Axis {
		root.drv.Axis[i] = -1
	}
	root.mons = s.NewMons(s, w0)
	root.dump = device.VerifDump(root.dev)
	e.metas = append(e.metas, meta{parent: -1})
	k := e.key(root)
	e.visited[k[0]].m[k] = 0
	frontier := []*node{root}
	e.replayCheck(w0, root, 0)

	ws := make([]*worker, workers)
	for i := range ws {
		ws[i] = newWorker()
	}
	go e.watchdog(ws)

	depth := 0
	for len(frontier) > 0 && !e.stopAll.Load() {
		depth++
		next := make([][]*node, workers)
		var idx atomic.Int64
		var wg sync.WaitGroup
		for wi := 0; wi < workers; wi++ {
			wg.Add(1)
			go func(wi int) {
				defer wg.Done()
				w := ws[wi]
				for {
					i := int(idx.Add(1)) - 1
					if i >= len(frontier) || e.stopAll.Load() {
						return
					}
					n := frontier[i]
					if n.term {
						continue
					}
					for _, ev := range e.enabled(n) {
						if c := e.expand(w, n, ev, int32(depth)); c != nil {
							next[wi] = append(next[wi], c)
						}
					}
					n.dev = nil
					n.mons = nil
				}
			}(wi)
		}
		wg.Wait()
		frontier = frontier[:0]
		for _, l := range next {
			frontier = append(frontier, l...)
		}
		if e.hitCap.Load() {
			e.capped = true
			e.Res.Note(fmt.Sprintf("scenario %s/%s: state cap %d reached at depth %d (every state up to depth %d was fully expanded)", s.D.Name, s.D.Mode, s.MaxState, depth, depth-2))
			break
		}
	}
	e.Res.Add("states", int64(len(e.metas)))
	e.Res.Add("transitions", e.transitions.Load())
	e.Res.Add("traces_validated_against_impl", e.replays.Load())
	e.Res.Add("distinct_step_outputs", e.nOutcomes.Load())
	e.Res.Add("scenarios", 1)
	if int64(depth) > e.Res.Counters["max_depth"] {
		e.Res.Counters["max_depth"] = int64(depth)
	}
	if e.capped {
		e.Res.Exhaustive = false
	}
}

func (e *Explorer) expand(w *worker, n *node, ev Event, depth int32) *node {
	s := e.S
	sym := &s.Alpha[ev.Sym]
	e.transitions.Add(1)
	w.busyWhat.Store(busy{n.id, ev})
	w.busySince.Store(time.Now().UnixNano())
	child := &node{dev: device.VerifClone(n.dev, w.out, w.sigs)}
	in := inputEvent(s.Alpha, ev)
	if pv := safeStep(child.dev, in); pv != "" {
		w.busySince.Store(0)
		w.drain()
		e.Res.Violate("event-processing-panics", s.D.Name+"/"+s.D.Mode+":"+ev.String(s.Alpha), "processing an input event panicked: "+pv, map[string]interface{}{
			"scenario": s.D.Name, "mode": s.D.Mode, "history": e.witnessStrings(n.id, ev), "toml": s.D.TOML()})
		return nil
	}
	w.busySince.Store(0)
	msgs, nsig := w.drain()
	post, drv, swallowed := e.refStep(n.ref, n.drv, ev)
	child.ref, child.drv = post, drv
	child.dump = device.VerifDump(child.dev)
	child.term = (swallowed || nsig > 0) && !s.BeyondExit // the application ends after the signal; C14 looks at what the device does meanwhile too
	child.mons = make([]Monitor, len(n.mons))
	violated := false
	ctx := &StepCtx{S: s, Ev: ev, Sym: sym, Pre: n.ref, Post: post, PreDrv: n.drv, PostDrv: drv, Msgs: msgs, Sigs: nsig,
		DumpPre: n.dump, DumpPost: child.dump, Dev: child.dev, In: in, w: w}
	ctx.viol = func(class, what string) {
		violated = true
		hist := e.witnessStrings(n.id, ev)
		e.Res.Violate(class, s.D.Name+"/"+s.D.Mode+":"+ev.String(s.Alpha), what, map[string]interface{}{
			"scenario": s.D.Name, "mode": s.D.Mode, "history": hist, "step_output": msgStrings(msgs), "signals": nsig,
			"ref_before": fmt.Sprintf("%+v", n.ref), "ref_after": fmt.Sprintf("%+v", post), "toml": s.D.TOML(),
		})
	}
	for i, m := range n.mons {
		child.mons[i] = m.Clone(w)
		child.mons[i].Step(ctx)
	}
	sig := chain([8]byte{byte(ev.Sym), byte(nsig), byte(ev.Val)}, msgs)
	if _, loaded := e.outcomes.LoadOrStore(sig, true); !loaded {
		e.nOutcomes.Add(1)
	}
	if violated {
		e.violStates.Add(1)
		return nil // do not explore beyond a violating step
	}
	k := e.key(child)
	sh := &e.visited[k[0]]
	sh.Lock()
	if _, ok := sh.m[k]; ok {
		sh.Unlock()
		return nil
	}
	e.mu.Lock()
	if s.MaxState > 0 && len(e.metas) >= s.MaxState { // hard cap (memory): stop admitting new states, the run is reported as not exhaustive
		e.mu.Unlock()
		sh.Unlock()
		e.hitCap.Store(true)
		return nil
	}
	id := int32(len(e.metas))
	e.metas = append(e.metas, meta{parent: n.id, ev: ev, outHash: chain(e.metas[n.id].outHash, msgs), depth: depth})
	e.mu.Unlock()
	sh.m[k] = id
	sh.Unlock()
	child.id = id
	if id < 4 || id%50000 == 0 {
		e.Res.Sample(map[string]interface{}{"scenario": s.D.Name + "/" + s.D.Mode, "history": e.witnessStrings(id), "last_step_output": msgStrings(msgs)})
	}
	if e.doReplay {
		e.replayCheck(w, child, id)
	}
	return child
}

// ---- conformance + disconnect: replay the witness of a state through the REAL ProcessEvents

type recv struct{ sounding map[[2]byte]bool }

func (r *recv) apply(m midi.Event) {
	if len(m) < 3 {
		return
	}
	ch := m[0] & 0x0f
	switch m[0] & 0xf0 {
	case 0x90:
		if m[2] > 0 {
			r.sounding[[2]byte{ch, m[1]}] = true
		} else {
			delete(r.sounding, [2]byte{ch, m[1]})
		}
	case 0x80:
		delete(r.sounding, [2]byte{ch, m[1]})
	case 0xb0:
		if m[1] == 123 || m[1] == 120 {
			for k := range r.sounding {
				if k[0] == ch {
					delete(r.sounding, k)
				}
			}
		}
	}
}

var barrier = &input.InputEvent{Source: handler, Event: evdev.InputEvent{Type: evdev.EV_SYN}}

func (e *Explorer) replayCheck(w *worker, n *node, id int32) {
	if !e.replayOnce(w, n, id, 120*time.Second, false) {
		// a stall on an overloaded machine is not a verdict: confirm on a fresh channel pair with a long deadline
		w2 := newWorker()
		e.replayOnce(w2, n, id, 600*time.Second, true)
	}
}

// replayOnce returns false if ProcessEvents did not return within the deadline (reported only when final).
func (e *Explorer) replayOnce(w *worker, n *node, id int32, deadline time.Duration, final bool) bool {
	s := e.S
	evs := e.witness(id)
	out, sigs := w.out, w.sigs
	dev, err := s.D.Build(out, sigs)
	if err != nil {
		e.Res.Infra = err.Error()
		return true
	}
	in := make(chan *input.InputEvent)
	done := make(chan struct{})
	go func() {
		dev.ProcessEvents(in)
		close(done)
	}()
	var all []midi.Event
	pull := func() {
		for {
			select {
			case m := <-out:
				all = append(all, m)
				continue
			default:
			}
			return
		}
	}
	for _, ev := range evs {
		in <- inputEvent(s.Alpha, ev)
		pull() // everything before this event has been processed: safe to empty the buffer
	}
	in <- barrier // when this send completes every earlier event has been processed
	pull()
	n1 := len(all)
	close(in)
	returned := true
	select {
	case <-done:
	case <-time.After(deadline):
		returned = false
	}
	pull()
	w.drain()
	e.replays.Add(1)
	hist := e.witnessStrings(id)
	if !returned {
		if final {
			e.Res.Violate("processing-does-not-end", s.D.Name+"/"+s.D.Mode, "ProcessEvents had not returned 10 minutes after its event stream was closed (second attempt; the first waited 2 minutes)",
				map[string]interface{}{"scenario": s.D.Name, "mode": s.D.Mode, "history": hist, "toml": s.D.TOML()})
		}
		return false
	}
	var zero [8]byte
	h := chain(zero, all[:n1])
	e.mu.Lock()
	want := e.metas[id].outHash
	e.mu.Unlock()
	if h != want {
		e.Res.Violate("real-loop-differs-from-explored-path", s.D.Name+"/"+s.D.Mode,
			"a fresh device driven through the real ProcessEvents with the witness history emitted different messages than the explored (cloned) path: device behaviour depends on something outside its own state",
			map[string]interface{}{"scenario": s.D.Name, "mode": s.D.Mode, "history": hist, "real_output": msgStrings(all[:n1]), "toml": s.D.TOML()})
		return true
	}
	if e.S.NewMons != nil && checkDisconnect {
		r := &recv{sounding: map[[2]byte]bool{}}
		for _, m := range all {
			r.apply(m)
		}
		if len(r.sounding) > 0 {
			e.Res.Violate("stuck-after-disconnect", s.D.Name+"/"+s.D.Mode, fmt.Sprintf("after the event stream ended and ProcessEvents returned, %d note(s) still sound at the receiver: %v", len(r.sounding), r.sounding),
				map[string]interface{}{"scenario": s.D.Name, "mode": s.D.Mode, "history": hist, "cleanup_output": msgStrings(all[n1:]), "toml": s.D.TOML()})
		}
		for _, m := range all[n1:] {
			if len(m) != 3 || m[0]&0xf0 != 0x80 && !(m[0]&0xf0 == 0x90 && m[2] == 0) {
				e.Res.Violate("cleanup-emits-non-noteoff", s.D.Name+"/"+s.D.Mode, fmt.Sprintf("disconnect clean-up emitted % x", []byte(m)),
					map[string]interface{}{"scenario": s.D.Name, "mode": s.D.Mode, "history": hist, "cleanup_output": msgStrings(all[n1:]), "toml": s.D.TOML()})
				break
			}
		}
	}
	if e.S.NewMons != nil && checkCleanupCollision && s.D.Mode != "off" {
		// managed modes: one Note Off per sounding (channel, pitch), however many keys hold it when the device goes away
		seen := map[[2]byte]int{}
		for _, m := range all[n1:] {
			if len(m) == 3 && (m[0]&0xf0 == 0x80 || (m[0]&0xf0 == 0x90 && m[2] == 0)) {
				seen[[2]byte{m[0] & 0x0f, m[1]}]++
			}
		}
		for k, n := range seen {
			if n > 1 {
				e.Res.Violate("cleanup-collision-rule", s.D.Name+"/"+s.D.Mode, fmt.Sprintf("mode %s: the disconnect clean-up sent %d Note Offs for ch%d/%d (exactly one is due, at the end of the last holder)", s.D.Mode, n, k[0]+1, k[1]),
					map[string]interface{}{"scenario": s.D.Name, "mode": s.D.Mode, "history": hist, "cleanup_output": msgStrings(all[n1:]), "toml": s.D.TOML()})
				break
			}
		}
	}
	return true
}

var checkDisconnect = true
var checkCleanupCollision = false

func safeStep(d *device.Device, in *input.InputEvent) (p string) {
	defer func() {
		if r := recover(); r != nil {
			p = fmt.Sprint(r)
		}
	}()
	device.VerifStep(d, in)
	return ""
}

// chain: hash chained per message (step boundaries are not observable on the real output channel)
func chain(prev [8]byte, msgs []midi.Event) [8]byte {
	h := prev
	for _, m := range msgs {
		h = hashOut(h, []midi.Event{m})
	}
	return h
}

func (e *Explorer) watchdog(ws []*worker) {
	for !e.stopAll.Load() {
		time.Sleep(2 * time.Second)
		now := time.Now().UnixNano()
		for _, w := range ws {
			b := w.busySince.Load()
			if b != 0 && now-b > int64(600*time.Second) {
				bw, _ := w.busyWhat.Load().(busy)
				what := fmt.Sprintf("%v", e.witnessStrings(bw.id, bw.ev))
				e.Res.Violate("event-processing-hangs", e.S.D.Name+"/"+e.S.D.Mode, "processing one input event did not finish within 600 s (normal cost: microseconds): "+what,
					map[string]interface{}{"scenario": e.S.D.Name, "mode": e.S.D.Mode, "history_then_event": what, "toml": e.S.D.TOML()})
				e.Res.Exhaustive = false
				e.Res.Write(*outPath)
				os.Exit(0)
			}
		}
	}
}

var _ = runtime.NumCPU
var _ = binary.LittleEndian
