//go:build verif

// C12: config selection (user over factory, specific over default, class by device type),
// isolation of bad files, missing directories. Generated hidi-config trees in a scratch
// directory, real LoadDeviceConfigs + FindConfig, reference lookup chain on the description.
package main

import (
	"context"
	"errors"
	"flag"
	"fmt"
	"os"
	"path/filepath"
	"strings"
	"sync"
	"time"

	"github.com/gethiox/HIDI/internal/pkg/input"
	"github.com/gethiox/HIDI/internal/pkg/logger"
	"github.com/gethiox/HIDI/internal/pkg/midi/device/config"
	"github.com/gethiox/HIDI/internal/verif/vutil"
)

var devID = input.InputID{Bus: 3, Vendor: 0x1234, Product: 0xabcd, Version: 0x0111}
var otherID = input.InputID{Bus: 3, Vendor: 0x1234, Product: 0xabce, Version: 0x0111}

func cfgText(id input.InputID, marker string) string {
	return fmt.Sprintf(`collision_mode = "off"
exit_sequence = []
[identifier]
bus = %d
vendor = %d
product = %d
version = %d
[defaults]
octave = 0
semitone = 0
channel = 1
mapping = %q
velocity = 64
[action_mapping]
[[mapping]]
name = %q
`, id.Bus, id.Vendor, id.Product, id.Version, marker, marker)
}

var dirs = map[string]string{
	"user/keyboard": "hidi-config/user/keyboard", "user/gamepad": "hidi-config/user/gamepad",
	"factory/keyboard": "hidi-config/factory/keyboard", "factory/gamepad": "hidi-config/factory/gamepad",
}
var dirOrder = []string{"user/keyboard", "user/gamepad", "factory/keyboard", "factory/gamepad"}

type tree struct {
	present  map[string]bool   // "<src>/<class>/<exact|default>" -> file exists
	exactID  input.InputID     // identifier written into the "exact" files
	junk     string            // none | broken | invalid | txt | nested | upperbroken | empty | all
	dirState map[string]string // dir -> present | missing | file | dangling
}

func (t *tree) describe() string {
	var p []string
	for _, d := range dirOrder {
		for _, k := range []string{"exact", "default"} {
			if t.present[d+"/"+k] {
				p = append(p, d+"/"+k)
			}
		}
	}
	ds := []string{}
	for _, d := range dirOrder {
		if t.dirState[d] != "present" {
			ds = append(ds, d+"="+t.dirState[d])
		}
	}
	return fmt.Sprintf("files=%v exact-id-matches=%v junk=%s dirs=%v", p, t.exactID == devID, t.junk, ds)
}

func (t *tree) build(root string) error {
	os.RemoveAll(filepath.Join(root, "hidi-config"))
	for _, d := range dirOrder {
		p := filepath.Join(root, dirs[d])
		if err := os.MkdirAll(filepath.Dir(p), 0o755); err != nil {
			return err
		}
		switch t.dirState[d] {
		case "missing":
			continue
		case "file":
			if err := os.WriteFile(p, []byte("not a directory"), 0o644); err != nil {
				return err
			}
			continue
		case "dangling":
			if err := os.Symlink(filepath.Join(root, "does-not-exist"), p); err != nil {
				return err
			}
			continue
		}
		if err := os.MkdirAll(p, 0o755); err != nil {
			return err
		}
		if t.present[d+"/exact"] {
			os.WriteFile(filepath.Join(p, "exact.toml"), []byte(cfgText(t.exactID, d+"/exact")), 0o644)
		}
		if t.present[d+"/default"] {
			os.WriteFile(filepath.Join(p, "0_default.toml"), []byte(cfgText(input.InputID{}, d+"/default")), 0o644)
		}
		j := t.junk
		if j == "broken" || j == "all" {
			os.WriteFile(filepath.Join(p, "broken.toml"), []byte("collision_mode = [[[\n"), 0o644)
			os.WriteFile(filepath.Join(p, "aaa_first_broken.toml"), []byte("\x00\xff garbage"), 0o644)
		}
		if j == "invalid" || j == "all" {
			os.WriteFile(filepath.Join(p, "invalid.toml"), []byte(strings.Replace(cfgText(otherID, "x"), `"off"`, `"sometimes"`, 1)), 0o644)
			os.WriteFile(filepath.Join(p, "zzz_late_defect.toml"), []byte(cfgText(t.exactID, "late-defect-must-not-be-loaded")+"\n[open_rgb]\nwhite = 1979-05-27\n"), 0o644)
			os.WriteFile(filepath.Join(p, "zzz_date.toml"), []byte(strings.Replace(cfgText(otherID, "x"), "octave = 0", "octave = 1979-05-27", 1)), 0o644)
		}
		if j == "txt" || j == "all" {
			os.WriteFile(filepath.Join(p, "notes.txt"), []byte(cfgText(devID, "txt-must-not-be-loaded")), 0o644)
			os.WriteFile(filepath.Join(p, "exacttoml"), []byte(cfgText(devID, "no-dot-must-not-be-loaded")), 0o644)
		}
		if j == "nested" || j == "all" {
			os.MkdirAll(filepath.Join(p, "old", "deeper"), 0o755)
			os.WriteFile(filepath.Join(p, "old", "broken.toml"), []byte("= = ="), 0o644)
			os.WriteFile(filepath.Join(p, "old", "deeper", "readme.md"), []byte("hi"), 0o644)
		}
		if j == "empty" || j == "all" {
			// what an editor leaves behind between truncating and writing, or a user's `touch draft.toml`
			os.WriteFile(filepath.Join(p, "draft.toml"), nil, 0o644)
			os.WriteFile(filepath.Join(p, "zzz_blank.toml"), []byte("  \n\n\t\n"), 0o644)
			os.WriteFile(filepath.Join(p, "000_comment_only.toml"), []byte("# nothing yet\n"), 0o644)
		}
		if j == "hidden" || j == "all" {
			// editor lock files / AppleDouble copies: they sort before every real configuration of the directory
			os.WriteFile(filepath.Join(p, "._exact.toml"), []byte("\x00\x05\x16\x07 resource fork"), 0o644)
			os.WriteFile(filepath.Join(p, ".#0_default.toml"), []byte("user@host.1234"), 0o644)
		}
		if j == "upperbroken" || j == "all" {
			os.WriteFile(filepath.Join(p, "BROKEN.TOML"), []byte("[[[["), 0o644)
		}
	}
	// every file gets the same old modification time: the loader must be a function of the tree's CONTENT, whatever
	// it has seen under the same path before in this process (trees are rebuilt in place thousands of times)
	fixed := time.Date(2020, 1, 1, 0, 0, 0, 0, time.UTC)
	filepath.Walk(filepath.Join(root, "hidi-config"), func(p string, info os.FileInfo, err error) error {
		if err == nil {
			os.Chtimes(p, fixed, fixed)
		}
		return nil
	})
	return nil
}

// expected marker for a device type, given which directories count (present ones)
func (t *tree) expected(dt input.DeviceType) (marker string, kind string) {
	var class string
	switch dt {
	case input.KeyboardDevice:
		class = "keyboard"
	case input.JoystickDevice:
		class = "gamepad"
	default:
		return "", "unsupported"
	}
	has := func(src, k string) bool {
		d := src + "/" + class
		if t.dirState[d] != "present" {
			return false
		}
		if k == "exact" && t.exactID != devID {
			return false
		}
		return t.present[d+"/"+k]
	}
	for _, c := range [][2]string{{"user", "exact"}, {"user", "default"}, {"factory", "exact"}, {"factory", "default"}} {
		if has(c[0], c[1]) {
			return c[0] + "/" + class + "/" + c[1], "found"
		}
	}
	return "", "none"
}

func main() {
	out := flag.String("out", "", "")
	shard := flag.Int("shard", 0, "")
	nshards := flag.Int("nshards", 1, "")
	tier := flag.String("tier", "quick", "")
	scratch := flag.String("scratch", "", "scratch directory (created, used as cwd, removed)")
	flag.Parse()
	go func() {
		for range logger.Messages {
		}
	}()
	res := vutil.NewResult()
	if *scratch == "" {
		vutil.Fail(*out, "need -scratch")
	}
	os.MkdirAll(*scratch, 0o755)
	defer os.RemoveAll(*scratch)
	if err := os.Chdir(*scratch); err != nil {
		vutil.Fail(*out, err.Error())
	}

	n := 0
	run := func(t *tree) {
		n++
		if n%*nshards != *shard {
			return
		}
		if err := t.build(*scratch); err != nil {
			res.Infra = "cannot build tree: " + err.Error()
			return
		}
		desc := t.describe()
		res.Add("trees", 1)
		var cfgs config.DeviceConfigs
		var lerr error
		panicked := ""
		func() {
			defer func() {
				if r := recover(); r != nil {
					panicked = fmt.Sprint(r)
				}
			}()
			cfgs, lerr = config.LoadDeviceConfigs(context.Background(), &sync.WaitGroup{})
		}()
		allPresent := true
		faults := []string{}
		for _, d := range dirOrder {
			if t.dirState[d] != "present" {
				allPresent = false
				faults = append(faults, t.dirState[d])
			}
		}
		if panicked != "" {
			res.Add("evaluations", 1)
			res.Violate("loader-panics", strings.Join(faults, "+"), fmt.Sprintf("LoadDeviceConfigs panicked (%s) on tree {%s}", panicked, desc), map[string]interface{}{"tree": desc, "panic": panicked})
			return
		}
		if lerr != nil {
			res.Add("evaluations", 1)
			if allPresent {
				res.Violate("loader-error-on-complete-tree", t.junk, fmt.Sprintf("LoadDeviceConfigs returned an error although all four directories exist: %v {%s}", lerr, desc), map[string]interface{}{"tree": desc, "error": lerr.Error()})
			} else {
				res.Distinct("load-error:" + strings.Join(faults, "+"))
			}
			return
		}
		for _, dt := range []input.DeviceType{input.KeyboardDevice, input.JoystickDevice, input.MouseDevice, input.UnknownDevice} {
			res.Add("evaluations", 1)
			want, kind := t.expected(dt)
			var got config.DeviceConfig
			var err error
			func() {
				defer func() {
					if r := recover(); r != nil {
						err = fmt.Errorf("PANIC: %v", r)
						panicked = fmt.Sprint(r)
					}
				}()
				got, err = cfgs.FindConfig(devID, dt)
			}()
			detail := map[string]interface{}{"tree": desc, "device_type": dt.String(), "expected": want, "expected_kind": kind}
			if panicked != "" {
				res.Violate("findconfig-panics", dt.String(), fmt.Sprintf("FindConfig panicked: %s {%s}", panicked, desc), detail)
				return
			}
			switch kind {
			case "unsupported":
				if err == nil || !errors.Is(err, config.UnsupportedDeviceType) {
					res.Violate("unsupported-type-not-reported", dt.String(), fmt.Sprintf("device type %s must give UnsupportedDeviceType, got (%q, %v) {%s}", dt, got.ConfigFile, err, desc), detail)
				}
			case "none":
				if err == nil {
					res.Violate("config-found-where-none-exists", dt.String(), fmt.Sprintf("no candidate file exists for a %s but FindConfig returned %s/%s {%s}", dt, got.ConfigType, got.ConfigFile, desc), detail)
				} else if errors.Is(err, config.UnsupportedDeviceType) {
					res.Violate("wrong-error-kind", dt.String(), fmt.Sprintf("a supported device type without configuration was reported as unsupported {%s}", desc), detail)
				}
			case "found":
				if err != nil {
					res.Violate("config-not-found", want, fmt.Sprintf("%s: expected %s, FindConfig returned error %v {%s}", dt, want, err, desc), detail)
					break
				}
				gotMarker := ""
				if len(got.Config.KeyMappings) > 0 {
					gotMarker = got.Config.KeyMappings[0].Name
				}
				parts := strings.Split(want, "/")
				wantFile := "exact.toml"
				if parts[2] == "default" {
					wantFile = "0_default.toml"
				}
				if gotMarker != want || got.ConfigType != parts[0] || got.ConfigFile != wantFile {
					res.Violate("wrong-config-selected", fmt.Sprintf("want=%s got=%s", want, gotMarker), fmt.Sprintf("%s: expected %s (%s %s), FindConfig returned %s (%s %s) {%s}", dt, want, parts[0], wantFile, gotMarker, got.ConfigType, got.ConfigFile, desc), detail)
				}
				res.Distinct(dt.String() + ":" + want)
			}
		}
		if len(res.Samples) < 3 && n%211 == 1 {
			res.Sample(desc)
		}
	}

	newTree := func() *tree {
		t := &tree{present: map[string]bool{}, exactID: devID, junk: "none", dirState: map[string]string{}}
		for _, d := range dirOrder {
			t.dirState[d] = "present"
		}
		return t
	}
	slots := []string{}
	for _, d := range dirOrder {
		slots = append(slots, d+"/exact", d+"/default")
	}
	junks := []string{"none", "all"}
	if *tier == "thorough" {
		junks = []string{"none", "broken", "invalid", "txt", "nested", "upperbroken", "empty", "hidden", "all"}
	}
	// (1) all 2^8 presence combinations x identifier match x junk
	for mask := 0; mask < 256; mask++ {
		for _, id := range []input.InputID{devID, otherID} {
			for _, j := range junks {
				t := newTree()
				for i, s := range slots {
					t.present[s] = mask&(1<<i) != 0
				}
				t.exactID = id
				t.junk = j
				run(t)
			}
		}
	}
	// (2) directory faults: every assignment of {present, missing, file, dangling} to the four directories
	//     x a spread of presence masks
	states := []string{"present", "missing", "file", "dangling"}
	masks := []int{0, 255, 0b10101010, 0b01010101, 0b00001111, 0b11110000}
	if *tier == "thorough" {
		masks = masks[:0]
		for m := 0; m < 256; m++ { // every presence combination under every directory fault
			masks = append(masks, m)
		}
	}
	for a := 0; a < 256; a++ {
		if a == 0 {
			continue
		}
		for _, mask := range masks {
			t := newTree()
			x := a
			for _, d := range dirOrder {
				t.dirState[d] = states[x%4]
				x /= 4
			}
			for i, s := range slots {
				t.present[s] = mask&(1<<i) != 0
			}
			t.junk = "broken"
			run(t)
		}
	}
	res.Write(*out)
	if res.Infra != "" {
		os.RemoveAll(*scratch)
		os.Exit(2)
	}
}
