//go:build verif

// Self-tests of the vsched engine: (1) channel-model conformance against native Go channels for
// every operation sequence up to a length, (2) known-answer explorations (message orders,
// lock-order deadlock, lost update race).
package main

import (
	"time"
	"flag"
	"fmt"
	"os"
	"strings"

	"github.com/gethiox/HIDI/internal/verif/vsched"
	"github.com/gethiox/HIDI/internal/verif/vutil"
)

var ops = []string{"sendA", "sendB", "recv", "close", "trysend", "tryrecv"}

func native(capacity int, seq []int) []string {
	ch := make(chan string, capacity)
	var out []string
	for _, o := range seq {
		r := func() (res string) {
			defer func() {
				if p := recover(); p != nil {
					res = "panic"
				}
			}()
			switch ops[o] {
			case "sendA", "sendB":
				v := ops[o][4:]
				select {
				case ch <- v:
					return "sent"
				default:
					// a send on a closed channel panics even in a select; reaching default means it would block
					return "blocks"
				}
			case "trysend":
				select {
				case ch <- "T":
					return "sent"
				default:
					return "default"
				}
			case "recv":
				select {
				case v, ok := <-ch:
					return fmt.Sprintf("got(%s,%v)", v, ok)
				default:
					return "blocks"
				}
			case "tryrecv":
				select {
				case v, ok := <-ch:
					return fmt.Sprintf("got(%s,%v)", v, ok)
				default:
					return "default"
				}
			case "close":
				close(ch)
				return "closed"
			}
			return "?"
		}()
		out = append(out, r)
		if r == "blocks" || r == "panic" {
			break
		}
	}
	return out
}

func model(capacity int, seq []int) []string {
	var out []string
	x := vsched.Run(func() {
		ch := make(chan string, capacity)
		for _, o := range seq {
			cur := "blocks" // overwritten when the operation completes
			out = append(out, cur)
			i := len(out) - 1
			switch ops[o] {
			case "sendA", "sendB":
				vsched.Out[string](ch).Send(ops[o][4:])
				out[i] = "sent"
			case "trysend":
				k := vsched.CaseSend[string](ch, "T")
				if vsched.Select(true, k) == 0 {
					out[i] = "sent"
				} else {
					out[i] = "default"
				}
			case "recv":
				v, ok := vsched.In[string](ch).Recv2()
				out[i] = fmt.Sprintf("got(%s,%v)", v, ok)
			case "tryrecv":
				k := vsched.CaseRecv[string](ch)
				if vsched.Select(true, k) == 0 {
					v, ok := k.Value2()
					out[i] = fmt.Sprintf("got(%s,%v)", v, ok)
				} else {
					out[i] = "default"
				}
			case "close":
				vsched.CloseBidi(ch)
				out[i] = "closed"
			}
		}
	}, nil, vsched.Options{})
	if x.Panic != "" {
		out[len(out)-1] = "panic"
	}
	return out
}

func main() {
	outp := flag.String("out", "", "")
	flag.Int("shard", 0, "")
	flag.Int("nshards", 1, "")
	flag.String("tier", "quick", "")
	maxLen := flag.Int("len", 6, "")
	flag.Parse()
	res := vutil.NewResult()
	// (1) conformance
	seq := []int{}
	var rec func()
	rec = func() {
		if len(seq) > 0 {
			for c := 0; c <= 2; c++ {
				n, m := native(c, seq), model(c, seq)
				res.Add("conformance_sequences", 1)
				if strings.Join(n, ",") != strings.Join(m, ",") {
					var names []string
					for _, o := range seq {
						names = append(names, ops[o])
					}
					res.Violate("channel-model-differs-from-go", fmt.Sprint(names), fmt.Sprintf("cap %d, ops %v: native %v, model %v", c, names, n, m), nil)
				}
			}
		}
		if len(seq) == *maxLen {
			return
		}
		for o := range ops {
			seq = append(seq, o)
			rec()
			seq = seq[:len(seq)-1]
		}
	}
	rec()

	// (2a) two senders, one receiver on an unbuffered channel: exactly the 6 interleavings of (a1,a2) and (b1,b2)
	orders := map[string]bool{}
	r := vsched.Explore(func() {
		ch := make(chan string)
		for _, p := range []string{"a", "b"} {
			p := p
			vsched.Go("sender-"+p, func() {
				vsched.Out[string](ch).Send(p + "1")
				vsched.Out[string](ch).Send(p + "2")
			})
		}
		var got []string
		for i := 0; i < 4; i++ {
			got = append(got, vsched.In[string](ch).Recv())
		}
		vsched.Observe("order", strings.Join(got, " "))
	}, vsched.ExploreOpts{Bound: -1, Outcome: func(x *vsched.Execution) string {
		for _, o := range x.Obs {
			orders[fmt.Sprint(o.Val)] = true
		}
		if x.Deadlock {
			return "deadlock"
		}
		return "ok"
	}})
	res.Add("known_answer_executions", r.Executions)
	if len(orders) != 6 || r.Outcomes["deadlock"] != 0 {
		res.Violate("known-answer", "orders", fmt.Sprintf("two senders x two messages must give exactly 6 orders and no deadlock, got %d: %v %v", len(orders), orders, r.Outcomes), nil)
	}
	// (2b) lock-order inversion: deadlock must be found with 1 preemption and not with 0
	for _, bound := range []int{0, 1} {
		r := vsched.Explore(func() {
			var a, b vsched.Mutex
			var wg vsched.WaitGroup
			wg.Add(2)
			vsched.Go("ab", func() { a.Lock(); b.Lock(); b.Unlock(); a.Unlock(); wg.Done() })
			vsched.Go("ba", func() { b.Lock(); a.Lock(); a.Unlock(); b.Unlock(); wg.Done() })
			wg.Wait()
		}, vsched.ExploreOpts{Bound: bound, Outcome: func(x *vsched.Execution) string {
			if x.Deadlock {
				return "deadlock"
			}
			return "ok"
		}})
		res.Add("known_answer_executions", r.Executions)
		if (bound == 0) != (r.Outcomes["deadlock"] == 0) {
			res.Violate("known-answer", fmt.Sprintf("lock-order bound %d", bound), fmt.Sprintf("lock-order inversion: bound %d outcomes %v", bound, r.Outcomes), nil)
		}
	}
	// (2c) race detector: unsynchronised write/read pair is reported, the mutex-protected one is not
	for _, locked := range []bool{false, true} {
		races := 0
		r := vsched.Explore(func() {
			var mu vsched.Mutex
			x := new(int)
			var wg vsched.WaitGroup
			wg.Add(2)
			for i := 0; i < 2; i++ {
				vsched.Go("w", func() {
					if locked {
						mu.Lock()
					}
					vsched.R(x, "x")
					vsched.W(x, "x")
					*x++
					if locked {
						mu.Unlock()
					}
					wg.Done()
				})
			}
			wg.Wait()
			vsched.R(x, "x")
		}, vsched.ExploreOpts{Bound: 2, Run: vsched.Options{Races: true}, Outcome: func(x *vsched.Execution) string {
			races += len(x.Races)
			return "ok"
		}})
		res.Add("known_answer_executions", r.Executions)
		if locked == (races > 0) {
			res.Violate("known-answer", fmt.Sprintf("race locked=%v", locked), fmt.Sprintf("race detector: locked=%v races=%d", locked, races), nil)
		}
	}
	// (2d) RWMutex: two readers may overlap, a writer excludes everybody; Once runs its function exactly once and the
	// other callers wait for it; atomic read-modify-write never loses an update while load+store does
	{
		overlap, bad := false, ""
		r := vsched.Explore(func() {
			var m vsched.RWMutex
			var wg vsched.WaitGroup
			readers, writers := 0, 0
			wg.Add(3)
			for i := 0; i < 2; i++ {
				vsched.Go("reader", func() {
					m.RLock()
					readers++
					if writers > 0 {
						vsched.Observe("bad", "reader next to a writer")
					}
					if readers == 2 {
						vsched.Observe("overlap", true)
					}
					vsched.Pause()
					readers--
					m.RUnlock()
					wg.Done()
				})
			}
			vsched.Go("writer", func() {
				m.Lock()
				writers++
				if readers > 0 || writers > 1 {
					vsched.Observe("bad", "writer not alone")
				}
				vsched.Pause()
				writers--
				m.Unlock()
				wg.Done()
			})
			wg.Wait()
		}, vsched.ExploreOpts{Bound: 2, Outcome: func(x *vsched.Execution) string {
			for _, o := range x.Obs {
				if o.Kind == "overlap" {
					overlap = true
				}
				if o.Kind == "bad" {
					bad = fmt.Sprint(o.Val)
				}
			}
			if x.Deadlock {
				return "deadlock"
			}
			return "ok"
		}})
		res.Add("known_answer_executions", r.Executions)
		if !overlap || bad != "" || r.Outcomes["deadlock"] != 0 {
			res.Violate("known-answer", "rwmutex", fmt.Sprintf("RWMutex: readers overlapped=%v, exclusion violated=%q, outcomes %v", overlap, bad, r.Outcomes), nil)
		}
		counts := map[string]bool{}
		r = vsched.Explore(func() {
			var once vsched.Once
			var wg vsched.WaitGroup
			n, seenUnfinished := 0, false
			finished := false
			wg.Add(3)
			for i := 0; i < 3; i++ {
				vsched.Go("caller", func() {
					once.Do(func() { n++; vsched.Pause(); finished = true })
					if !finished {
						seenUnfinished = true
					}
					wg.Done()
				})
			}
			wg.Wait()
			vsched.Observe("once", fmt.Sprintf("%d/%v", n, seenUnfinished))
		}, vsched.ExploreOpts{Bound: 2, Outcome: func(x *vsched.Execution) string {
			for _, o := range x.Obs {
				counts[fmt.Sprint(o.Val)] = true
			}
			if x.Deadlock {
				return "deadlock"
			}
			return "ok"
		}})
		res.Add("known_answer_executions", r.Executions)
		if len(counts) != 1 || !counts["1/false"] || r.Outcomes["deadlock"] != 0 {
			res.Violate("known-answer", "once", fmt.Sprintf("Once: results %v outcomes %v (want exactly 1/false)", counts, r.Outcomes), nil)
		}
		for _, rmw := range []bool{true, false} {
			finals := map[int32]bool{}
			races := 0
			r = vsched.Explore(func() {
				var c vsched.AtomicInt32
				var wg vsched.WaitGroup
				wg.Add(2)
				for i := 0; i < 2; i++ {
					vsched.Go("inc", func() {
						if rmw {
							c.Add(1)
						} else {
							c.Store(c.Load() + 1)
						}
						wg.Done()
					})
				}
				wg.Wait()
				vsched.Observe("final", c.Load())
			}, vsched.ExploreOpts{Bound: 2, Run: vsched.Options{Races: true}, Outcome: func(x *vsched.Execution) string {
				races += len(x.Races)
				for _, o := range x.Obs {
					finals[o.Val.(int32)] = true
				}
				return "ok"
			}})
			res.Add("known_answer_executions", r.Executions)
			if races != 0 || !finals[2] || finals[1] == rmw {
				res.Violate("known-answer", fmt.Sprintf("atomic rmw=%v", rmw), fmt.Sprintf("atomic counter: read-modify-write=%v finals=%v races=%d", rmw, finals, races), nil)
			}
		}
	}
	// (2e) Timer / Ticker / context deadline: a stopped timer never fires, an unstopped one does; a ticker delivers as many
	// ticks as its consumer waits for and does not keep the execution alive afterwards; a timeout cancels the context
	// and its children with DeadlineExceeded
	{
		seen := map[string]bool{}
		r := vsched.Explore(func() {
			t := vsched.NewTimer(time.Second)
			stopped := vsched.NewTimer(time.Second)
			stopped.Stop()
			fired := false
			vsched.AfterFunc(time.Second, func() { fired = true })
			k := vsched.NewTicker(10 * time.Millisecond)
			n := 0
			for n < 3 {
				vsched.In[time.Time](k.C).Recv()
				n++
			}
			k.Stop()
			vsched.In[time.Time](t.C).Recv()
			ctx, cancel := vsched.WithTimeout(vsched.Background(), time.Minute)
			child, cancel2 := vsched.WithCancel(ctx)
			vsched.In[struct{}](child.Done()).Recv()
			vsched.Sleep(time.Hour)
			st := "not-fired"
			if vsched.Select(true, vsched.CaseRecv[time.Time](stopped.C)) == 0 {
				st = "fired"
			}
			vsched.Observe("r", fmt.Sprintf("ticks=%d stopped-timer=%s afterfunc=%v err=%v/%v", n, st, fired, ctx.Err(), child.Err()))
			cancel()
			cancel2()
			vsched.NewTicker(time.Millisecond) // still running at the end: must not keep the execution alive
		}, vsched.ExploreOpts{Bound: 1, Run: vsched.Options{MaxPoints: 400, DefaultSleepBudget: 1}, Outcome: func(x *vsched.Execution) string {
			for _, o := range x.Obs {
				seen[fmt.Sprint(o.Val)] = true
			}
			if x.Deadlock {
				return "deadlock"
			}
			if x.HorizonHit {
				return "horizon"
			}
			return "ok"
		}})
		res.Add("known_answer_executions", r.Executions)
		want := "ticks=3 stopped-timer=not-fired afterfunc=true err=context deadline exceeded/context deadline exceeded"
		if len(seen) != 1 || !seen[want] || r.Outcomes["deadlock"] != 0 || r.Outcomes["horizon"] != 0 {
			res.Violate("known-answer", "timers", fmt.Sprintf("timers/tickers/deadline: results %v outcomes %v (want only %q)", seen, r.Outcomes, want), nil)
		}
	}
	res.Add("evaluations", res.Counters["conformance_sequences"]+res.Counters["known_answer_executions"])
	res.Write(*outp)
	if res.NumViolations() > 0 {
		fmt.Println("SELFTEST FAILED")
		os.Exit(1)
	}
	fmt.Println("vsched selftest ok:", res.Counters)
}
