//go:build verif

// c19conf: conformance of the fake fsnotify alphabet used by the C19 schedule exploration with
// the REAL fsnotify library and the kernel (inotify), plus an end-to-end run of the real,
// uninstrumented DetectDeviceConfigChanges. No timing oracle: event lists are delimited by a
// sentinel file creation (inotify preserves order), waits are 30 s deadlines on events that
// take microseconds.
package main

import (
	"context"
	"flag"
	"fmt"
	"os"
	"path/filepath"
	"strings"
	"time"

	"github.com/fsnotify/fsnotify"
	"github.com/gethiox/HIDI/internal/pkg/logger"
	"github.com/gethiox/HIDI/internal/pkg/midi/device/config"
	"github.com/gethiox/HIDI/internal/verif/vutil"
)

var dirs = []string{"hidi-config/factory/gamepad", "hidi-config/factory/keyboard", "hidi-config/user/gamepad", "hidi-config/user/keyboard"}

func main() {
	out := flag.String("out", "", "")
	scratch := flag.String("scratch", "", "")
	flag.Parse()
	go func() {
		for range logger.Messages {
		}
	}()
	res := vutil.NewResult()
	os.MkdirAll(*scratch, 0o755)
	if err := os.Chdir(*scratch); err != nil {
		vutil.Fail(*out, err.Error())
	}
	for _, d := range dirs {
		os.MkdirAll(d, 0o755)
		os.WriteFile(filepath.Join(d, "a.toml"), []byte("x = 1\n"), 0o644)
		os.WriteFile(filepath.Join(d, "b.txt"), []byte("x"), 0o644)
	}
	w, err := fsnotify.NewWatcher()
	if err != nil {
		vutil.Fail(*out, "inotify unavailable: "+err.Error())
	}
	for _, d := range dirs {
		if err := w.Add(d); err != nil {
			vutil.Fail(*out, err.Error())
		}
	}
	seq := 0
	// perform op, then create a sentinel; every event before the sentinel's CREATE belongs to op
	collect := func(dir string, op func()) ([]fsnotify.Event, bool) {
		op()
		seq++
		s := filepath.Join(dir, fmt.Sprintf("sentinel-%d", seq))
		os.WriteFile(s, nil, 0o644)
		var evs []fsnotify.Event
		deadline := time.After(30 * time.Second)
		for {
			select {
			case e := <-w.Events:
				if e.Name == s && e.Op&fsnotify.Create != 0 {
					os.Remove(s)
					// swallow the sentinel's own remove event
					select {
					case <-w.Events:
					case <-time.After(30 * time.Second):
					}
					return evs, true
				}
				if strings.Contains(e.Name, "sentinel-") {
					continue
				}
				evs = append(evs, e)
			case <-deadline:
				return evs, false
			}
		}
	}
	single := map[fsnotify.Op]bool{fsnotify.Create: true, fsnotify.Write: true, fsnotify.Remove: true, fsnotify.Rename: true, fsnotify.Chmod: true}
	for _, d := range dirs {
		type opT struct {
			name    string
			file    string
			inPlace bool
			f       func()
		}
		a, b := filepath.Join(d, "a.toml"), filepath.Join(d, "b.txt")
		ops := []opT{
			{"append to a.toml", a, true, func() {
				f, _ := os.OpenFile(a, os.O_APPEND|os.O_WRONLY, 0)
				f.WriteString("y = 2\n")
				f.Close()
			}},
			{"rewrite a.toml with O_TRUNC", a, true, func() { os.WriteFile(a, []byte("z = 3\n"), 0o644) }},
			{"overwrite first byte of a.toml", a, true, func() {
				f, _ := os.OpenFile(a, os.O_WRONLY, 0)
				f.WriteAt([]byte("q"), 0)
				f.Close()
			}},
			{"truncate a.toml to nothing", a, true, func() { os.Truncate(a, 0) }},
			{"refill a.toml", a, true, func() { os.WriteFile(a, []byte("z = 4\n"), 0o644) }},
			{"write b.txt", b, true, func() { os.WriteFile(b, []byte("new"), 0o644) }},
			{"chmod a.toml", a, false, func() { os.Chmod(a, 0o600) }},
			{"create c.toml (empty)", filepath.Join(d, "c.toml"), false, func() { f, _ := os.Create(filepath.Join(d, "c.toml")); f.Close() }},
			{"remove c.toml", filepath.Join(d, "c.toml"), false, func() { os.Remove(filepath.Join(d, "c.toml")) }},
			{"rename b.txt", b, false, func() { os.Rename(b, b+".old"); os.Rename(b+".old", b) }},
		}
		for _, o := range ops {
			evs, ok := collect(d, o.f)
			res.Add("evaluations", 1)
			res.Add("file_operations", 1)
			var es []string
			for _, e := range evs {
				es = append(es, e.String())
			}
			res.Distinct(o.name + " => " + strings.Join(es, ","))
			if !ok {
				res.Violate("conformance-sentinel-not-seen", o.name, "the sentinel event did not arrive within 30 s after "+o.name, nil)
				continue
			}
			hasWrite := false
			for _, e := range evs {
				if !single[e.Op] {
					res.Violate("real-event-outside-fake-alphabet", e.Op.String(), fmt.Sprintf("%s in %s produced event %s which the fake fsnotify alphabet (single-bit ops) cannot express", o.name, d, e), nil)
				}
				if e.Op == fsnotify.Write && e.Name == o.file {
					hasWrite = true
				}
			}
			if o.inPlace && !hasWrite {
				res.Violate("real-modification-without-write-event", o.name, fmt.Sprintf("%s in %s produced %v: no event with Op == Write on that name", o.name, d, es), nil)
			}
			if !o.inPlace && hasWrite {
				res.Violate("real-non-modification-with-write-event", o.name, fmt.Sprintf("%s in %s produced %v", o.name, d, es), nil)
			}
			if len(res.Samples) < 4 {
				res.Sample(map[string]interface{}{"operation": o.name, "dir": d, "real_events": es})
			}
		}
	}
	w.Close()

	// end-to-end: the real DetectDeviceConfigChanges; positive cases only (a notification must arrive), then shutdown
	ctx, cancel := context.WithCancel(context.Background())
	ch := config.DetectDeviceConfigChanges(ctx)
	time.Sleep(300 * time.Millisecond) // let the watcher goroutine register its directories (a missed event would show as a 30 s timeout below, retried once)
	for _, d := range dirs {
		got := false
		for attempt := 0; attempt < 2 && !got; attempt++ {
			os.WriteFile(filepath.Join(d, "a.toml"), []byte(fmt.Sprintf("k = %d\n", attempt)), 0o644)
			select {
			case _, ok := <-ch:
				got = ok
			case <-time.After(30 * time.Second):
			}
		}
		res.Add("evaluations", 1)
		res.Add("end_to_end_writes", 1)
		if !got {
			res.Violate("real-watcher-misses-toml-write", d, "the real DetectDeviceConfigChanges delivered no notification within 30 s (two attempts) after rewriting "+d+"/a.toml", nil)
		}
	}
	// drain what the second MODIFY events may still produce, then shut down and expect the stream to end
	cancel()
	closed := false
	deadline := time.After(30 * time.Second)
loop:
	for {
		select {
		case _, ok := <-ch:
			if !ok {
				closed = true
				break loop
			}
		case <-deadline:
			break loop
		}
	}
	res.Add("evaluations", 1)
	if !closed {
		res.Violate("real-watcher-stream-not-closed", "shutdown", "30 s after cancellation (consumer still reading) the notification stream of the real watcher was not closed", nil)
	}
	os.Chdir("/")
	os.RemoveAll(*scratch)
	res.Write(*out)
}
