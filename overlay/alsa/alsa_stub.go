// Verification-only, cgo-free replacement of internal/pkg/midi/driver/alsa/alsa.go (mapped in
// with `go build -overlay`) so that cmd/hidi links in a sandbox without alsa/asoundlib.h.
// Nothing that is verified lives in this package.
package alsa

import (
	"errors"

	"github.com/gethiox/HIDI/internal/pkg/midi/driver"
)

var errStub = errors.New("alsa driver stubbed out for verification builds")

func CreatePort(name string) (driver.Port, error) { return driver.Port{}, errStub }
func GetPorts() []driver.Port                     { return nil }
func PickMidiPort(idx int) (driver.Port, error)   { return driver.Port{}, errStub }
