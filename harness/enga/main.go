//go:build verif

// Engine A: explicit-state breadth-first search to a fixpoint over the REAL device.Device
// (clone + processEvent per transition), in product with monitors written from the
// property statements; every discovered state's witness history is replayed through the
// real ProcessEvents loop (conformance + disconnect clean-up). See /verif/DESIGN.md §2.2.
package main

import (
	"encoding/json"
	"flag"
	"fmt"
	"os"
	"runtime"
	"runtime/debug"
	"runtime/pprof"

	"time"

	"github.com/gethiox/HIDI/internal/pkg/input"
	"github.com/gethiox/HIDI/internal/pkg/logger"
	"github.com/gethiox/HIDI/internal/pkg/midi"
	"github.com/gethiox/HIDI/internal/verif/vutil"
)

var outPath = flag.String("out", "", "result file")

type job struct {
	name string
	sc   *Scenario
}

func mk(d *Desc, mons func(s *Scenario, w *worker) []Monitor) *Scenario {
	s := &Scenario{D: d, NewMons: mons, axisOrd: map[int]int{}, axisDesc: map[int]*AxisDesc{}}
	s.Alpha = d.Alphabet()
	if len(s.Alpha) > 60 {
		panic("alphabet too large for the held-key bitmask")
	}
	ord := 0
	for i := range s.Alpha {
		if s.Alpha[i].IsAxis {
			s.axisOrd[i] = ord
			ord++
			for mi := range d.Mappings {
				if s.Alpha[i].Sub == "" {
					for ai := range d.Mappings[mi].Axes {
						if d.Mappings[mi].Axes[ai].Name == s.Alpha[i].Name && s.axisDesc[i] == nil {
							s.axisDesc[i] = &d.Mappings[mi].Axes[ai]
						}
					}
					continue
				}
				as := d.Mappings[mi].SubAxes[s.Alpha[i].Sub]
				for ai := range as {
					if s.Alpha[i].Sub+":"+as[ai].Name == s.Alpha[i].Name && s.axisDesc[i] == nil {
						s.axisDesc[i] = &as[ai]
					}
				}
			}
		}
	}
	if ord > 6 {
		panic("too many axes")
	}
	return s
}

func main() {
	prop := flag.String("prop", "", "property id")
	tier := flag.String("tier", "quick", "")
	jobIdx := flag.Int("job", -1, "job index (see -list)")
	list := flag.Bool("list", false, "print the job names and exit")
	workers := flag.Int("workers", runtime.NumCPU(), "")
	noReplay := flag.Bool("noreplay", false, "skip the real-loop replay of every state (debugging only)")
	grid := flag.String("grid", "", "run a bounded-exhaustive grid check instead of a BFS job: c04 | c05 | c06 | c08")
	shard := flag.Int("shard", 0, "")
	nshards := flag.Int("nshards", 1, "")
	prof := flag.String("cpuprofile", "", "")
	replayFile := flag.String("replay", "", "replay a violation record (JSON written by vcheck) through the real ProcessEvents, without the explorer")
	flag.Parse()
	if *prof != "" {
		f, _ := os.Create(*prof)
		pprof.StartCPUProfile(f)
		defer pprof.StopCPUProfile()
	}
	debug.SetGCPercent(400)
	debug.SetMemoryLimit(7 << 30) // soft limit: the collector works harder instead of the process being OOM-killed
	go func() {
		for range logger.Messages {
		}
	}()
	if *grid != "" {
		res := vutil.NewResult()
		func() {
			defer func() {
				if r := recover(); r != nil {
					res.Infra = fmt.Sprintf("panic in grid harness: %v\n%s", r, debug.Stack())
				}
			}()
			switch *grid {
			case "c04":
				gridC04(res, *tier, *shard, *nshards)
			case "c05":
				gridC05(res, *tier, *shard, *nshards)
			case "c06":
				gridC06(res, *tier, *shard, *nshards)
			case "c08":
				gridC08(res, *tier, *shard, *nshards)
			}
		}()
		res.Write(*outPath)
		if res.Infra != "" {
			os.Exit(2)
		}
		return
	}
	if *replayFile != "" {
		os.Exit(replayViolation(*prop, *tier, *replayFile))
	}
	checkCleanupCollision = *prop == "C03" // key scenarios only: emulated keys do not take part in the holder count (C03 speaks of keys)
	checkDisconnect = *prop == "C01" // the disconnect clause belongs to C01; other properties only use the replay for conformance
	jobs := jobsFor(*prop, *tier)
	if *list {
		for i, j := range jobs {
			fmt.Printf("%d %s\n", i, j.name)
		}
		return
	}
	if *outPath == "" {
		fmt.Fprintln(os.Stderr, "need -out")
		os.Exit(2)
	}
	if *jobIdx < 0 || *jobIdx >= len(jobs) {
		vutil.Fail(*outPath, fmt.Sprintf("no such job %d for %s/%s", *jobIdx, *prop, *tier))
	}
	j := jobs[*jobIdx]
	res := vutil.NewResult()
	ex := &Explorer{S: j.sc, Res: res, doReplay: !*noReplay}
	func() {
		defer func() {
			if r := recover(); r != nil {
				res.Infra = fmt.Sprintf("panic in explorer: %v", r)
			}
		}()
		ex.Run(*workers)
	}()
	ex.stopAll.Store(true)
	res.Distinct(fmt.Sprintf("%s:%d", j.name, ex.nOutcomes.Load())) // placeholder, replaced by counters in vcheck
	res.Write(*outPath)
	if res.Infra != "" {
		pprof.StopCPUProfile()
		os.Exit(2)
	}
}

// replayViolation re-executes the history of a violation record on a fresh device through the real
// ProcessEvents loop and prints what it emits (no explorer, no monitors).
func replayViolation(prop, tier, file string) int {
	b, err := os.ReadFile(file)
	if err != nil {
		fmt.Println(err)
		return 2
	}
	var rec struct {
		Class  string
		What   string
		Detail struct {
			Scenario string
			Mode     string
			History  []string
		}
	}
	if err := json.Unmarshal(b, &rec); err != nil {
		fmt.Println(err)
		return 2
	}
	for _, j := range jobsFor(prop, tier) {
		if j.name != rec.Detail.Scenario+"/"+rec.Detail.Mode {
			continue
		}
		s := j.sc
		var evs []Event
		for _, h := range rec.Detail.History {
			found := false
			for i := range s.Alpha {
				for _, v := range []int32{0, 1, 2} {
					if (Event{i, v}).String(s.Alpha) == h && !s.Alpha[i].IsAxis {
						evs = append(evs, Event{i, v})
						found = true
					}
				}
				if s.Alpha[i].IsAxis {
					for _, p := range s.Alpha[i].Pos {
						if (Event{i, p}).String(s.Alpha) == h {
							evs = append(evs, Event{i, p})
							found = true
						}
					}
				}
			}
			if !found {
				fmt.Println("cannot map history element", h)
				return 2
			}
		}
		out := make(chan midi.Event, 1<<16)
		dev, err := s.D.Build(out, make(chan os.Signal, 64))
		if err != nil {
			fmt.Println(err)
			return 2
		}
		in := make(chan *input.InputEvent)
		done := make(chan struct{})
		go func() { dev.ProcessEvents(in); close(done) }()
		r := &recv{sounding: map[[2]byte]bool{}}
		flush := func(tag string) {
			for len(out) > 0 {
				m := <-out
				r.apply(m)
				fmt.Printf("   %s emits % x\n", tag, []byte(m))
			}
		}
		for _, ev := range evs {
			in <- inputEvent(s.Alpha, ev)
			in <- barrier
			flush(ev.String(s.Alpha))
		}
		fmt.Println("sounding before disconnect:", r.sounding)
		close(in)
		select {
		case <-done:
			flush("disconnect clean-up")
			fmt.Println("ProcessEvents returned; sounding after disconnect:", r.sounding)
		case <-time.After(60 * time.Second):
			flush("disconnect clean-up")
			fmt.Println("ProcessEvents did NOT return within 60 s")
		}
		fmt.Println("recorded violation:", rec.Class, "-", rec.What)
		return 0
	}
	fmt.Println("scenario not found:", rec.Detail.Scenario, rec.Detail.Mode)
	return 2
}
